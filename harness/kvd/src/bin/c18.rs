//! C18 — Backward chaining returns only entailed answers, and all shallow ones, whatever
//! the goal's variables are called.
//!
//! Events: the binding list returned by `Reasoner::backward_chaining(goal)`; every goal
//! variable is read back with the public `resolve_term` (as the repository's own example
//! does) and the goal is instantiated with it.
//! Oracle: M-DATALOG naive least fixpoint over the monitor's own term table, with the first
//! round at which a fact appears (= minimal derivation height).  Soundness: every
//! instantiated goal is in the model.  Completeness: every model fact that matches the goal
//! and has height <= 8 (two below the engine's MAX_DEPTH = 10) is among the answers.
//! In addition (differential): the same program is asked the same goal with its variables
//! renamed to names the engine can never generate; the two answer sets must be equal.
//! That experiment is also what establishes the cause "goal variable named like a generated
//! rule variable" in a signature.

use datalog::reasoning::backward_chaining::resolve_term;
use datalog::reasoning::Reasoner;
use kvcore::mdatalog::{least_model, match_fact, rule_is_safe, Fact, Subst};
use kvcore::{guard, hash_str, json, panic_site, Ctx, Rng, Spec, Value};
use shared::rule::{FilterCondition, Rule};
use shared::terms::{Term, TriplePattern};
use std::collections::{BTreeMap, BTreeSet, HashMap, HashSet};
use std::rc::Rc;

const RULE: &str = "four generators: names (23 hand-written rule templates - copy, swap, join, left/right/non-linear closure, symmetric, multi-conclusion (distinct head predicates, and two / three conclusions sharing a predicate under one and two joins), constants and repeated variables in premise/head, variable predicates, mutual recursion, rules whose own variables are called A/B or v0/v1 - x 12 goal binding shapes incl. repeated goal variable and variable predicate x 14 goal-variable namings incl. v0,v1,.. x seeded fact sets), random (1-3 safe rules, 1-2 premises, 1-3 conclusions which in half of the multi-conclusion rules share one predicate, <=12 facts over 2-4 constants, random goal shape, goal variable names drawn from plain names, the rules' own names and v0..v6), depth (chains of length 2-13 under right/left-linear closure, marker propagation, even/odd mutual recursion and ladders of copy/swap rules, so that minimal derivation heights 0..13 occur) and filters (rules with numeric and variable-to-variable filters, also on variables that occur in the conclusion, goals open or bound in the filtered position; reported as a separate class). Every case runs the goal as drawn and with canonically renamed variables (in a third of the random cases the program is also run with facts and rules in shuffled order and the answer sets are compared). Cases whose predicted search size exceeds a fixed number of unification steps are skipped and counted. Non-trivial = the goal matches at least one model fact of derivation height >= 1 (a rule is needed); distinct by hash of (facts, rules, goal with its variable names).";

/// completeness is demanded up to this minimal derivation height = the engine's documented depth bound
const DEMANDED_HEIGHT: u32 = 10;
/// the engine's documented constant; used ONLY by the search-size predictor that filters the workload
const ENGINE_MAX_DEPTH: usize = 10;

// ---------------------------------------------------------------------------------------
// lexical programs

#[derive(Clone, Debug, PartialEq, Eq, Hash, PartialOrd, Ord)]
enum PT {
    V(String),
    C(String),
}
type Pat = (PT, PT, PT);
type T3 = (String, String, String);

#[derive(Clone, Debug, PartialEq, Eq, Hash)]
struct Flt {
    var: String,
    op: String,
    val: String,
}

#[derive(Clone, Debug, PartialEq, Eq, Hash)]
struct RuleS {
    prem: Vec<Pat>,
    concl: Vec<Pat>,
    filters: Vec<Flt>,
}

#[derive(Clone, Debug)]
struct Case {
    facts: Vec<T3>,
    rules: Vec<RuleS>,
    goal: Pat,
}

fn v(s: &str) -> PT {
    PT::V(s.to_string())
}
fn c(s: &str) -> PT {
    PT::C(s.to_string())
}
fn pt_str(t: &PT) -> String {
    match t {
        PT::V(x) => format!("?{}", x),
        PT::C(x) => x.clone(),
    }
}
fn pat_str(p: &Pat) -> String {
    format!("{} {} {}", pt_str(&p.0), pt_str(&p.1), pt_str(&p.2))
}
fn rule_str(r: &RuleS) -> String {
    let mut s = r.prem.iter().map(pat_str).collect::<Vec<_>>().join(" , ");
    for f in &r.filters {
        s.push_str(&format!(" FILTER(?{} {} {})", f.var, f.op, f.val));
    }
    format!("{} => {}", s, r.concl.iter().map(pat_str).collect::<Vec<_>>().join(" , "))
}
fn case_json(cs: &Case) -> Value {
    json!({
        "facts": cs.facts.iter().map(|(s, p, o)| format!("{} {} {}", s, p, o)).collect::<Vec<_>>(),
        "rules": cs.rules.iter().map(rule_str).collect::<Vec<_>>(),
        "goal": pat_str(&cs.goal),
    })
}
fn t3_str(t: &T3) -> String {
    format!("{} {} {}", t.0, t.1, t.2)
}

/// "?X q ?Y , ?Y r ?Z => ?X p ?Z ; …"
fn parse_rules(text: &str) -> Vec<RuleS> {
    let tok = |t: &str| if let Some(x) = t.strip_prefix('?') { v(x) } else { c(t) };
    let pats = |s: &str| -> Vec<Pat> {
        s.split(',')
            .map(|p| {
                let w: Vec<&str> = p.split_whitespace().collect();
                assert!(w.len() == 3, "bad pattern {:?}", p);
                (tok(w[0]), tok(w[1]), tok(w[2]))
            })
            .collect()
    };
    text.split(';')
        .map(|r| {
            let (b, h) = r.split_once("=>").expect("=>");
            RuleS { prem: pats(b), concl: pats(h), filters: vec![] }
        })
        .collect()
}

fn pat_terms(p: &Pat) -> [&PT; 3] {
    [&p.0, &p.1, &p.2]
}
fn goal_vars(g: &Pat) -> Vec<String> {
    let mut out: Vec<String> = vec![];
    for t in pat_terms(g) {
        if let PT::V(x) = t {
            if !out.contains(x) {
                out.push(x.clone());
            }
        }
    }
    out
}
/// exactly the strings `format!("v{}", n)` can produce
fn is_generated_name(s: &str) -> bool {
    match s.strip_prefix('v') {
        Some(d) if !d.is_empty() && d.bytes().all(|b| b.is_ascii_digit()) => d.parse::<u64>().map(|n| n.to_string() == d).unwrap_or(false),
        _ => false,
    }
}
/// the goal with its variables renamed (by identity) to names the engine never generates
fn canonical_goal(g: &Pat) -> Pat {
    let vars = goal_vars(g);
    let ren = |t: &PT| match t {
        PT::V(x) => PT::V(format!("G{}", vars.iter().position(|y| y == x).unwrap())),
        other => other.clone(),
    };
    (ren(&g.0), ren(&g.1), ren(&g.2))
}
fn rule_safe_lex(r: &RuleS) -> bool {
    let bound: BTreeSet<&String> = r.prem.iter().flat_map(|p| pat_terms(p)).filter_map(|t| if let PT::V(x) = t { Some(x) } else { None }).collect();
    !r.prem.is_empty()
        && !r.concl.is_empty()
        && r.concl.iter().flat_map(|p| pat_terms(p)).all(|t| match t {
            PT::V(x) => bound.contains(x),
            PT::C(_) => true,
        })
        && r.filters.iter().all(|f| bound.contains(&f.var))
}

// ---------------------------------------------------------------------------------------
// oracle side: own term table (sorted constants, id = rank), M-DATALOG

struct Table {
    names: Vec<String>,
    ids: BTreeMap<String, u32>,
}
impl Table {
    fn of(cs: &Case) -> Table {
        let mut all: BTreeSet<String> = BTreeSet::new();
        for (s, p, o) in &cs.facts {
            all.insert(s.clone());
            all.insert(p.clone());
            all.insert(o.clone());
        }
        let mut pats: Vec<&Pat> = vec![&cs.goal];
        for r in &cs.rules {
            pats.extend(r.prem.iter());
            pats.extend(r.concl.iter());
        }
        for p in pats {
            for t in pat_terms(p) {
                if let PT::C(x) = t {
                    all.insert(x.clone());
                }
            }
        }
        let names: Vec<String> = all.into_iter().collect();
        let ids = names.iter().enumerate().map(|(i, n)| (n.clone(), i as u32)).collect();
        Table { names, ids }
    }
    fn term(&self, t: &PT) -> Term {
        match t {
            PT::V(x) => Term::Variable(x.clone()),
            PT::C(x) => Term::Constant(self.ids[x]),
        }
    }
    fn pat(&self, p: &Pat) -> TriplePattern {
        (self.term(&p.0), self.term(&p.1), self.term(&p.2))
    }
    fn rule(&self, r: &RuleS, with_filters: bool) -> Rule {
        Rule {
            premise: r.prem.iter().map(|p| self.pat(p)).collect(),
            negative_premise: vec![],
            filters: if with_filters { r.filters.iter().map(|f| FilterCondition { variable: f.var.clone(), operator: f.op.clone(), value: f.val.clone() }).collect() } else { vec![] },
            conclusion: r.concl.iter().map(|p| self.pat(p)).collect(),
        }
    }
    fn lex(&self, f: Fact) -> T3 {
        (self.names[f.0 as usize].clone(), self.names[f.1 as usize].clone(), self.names[f.2 as usize].clone())
    }
}

struct Oracle {
    /// every model fact with its minimal derivation height
    model: BTreeMap<T3, u32>,
    /// the model facts matching the goal
    expected: BTreeMap<T3, u32>,
    outside_domain: bool,
}

fn oracle(cs: &Case, tb: &Table, with_filters: bool) -> Oracle {
    let input: BTreeSet<Fact> = cs.facts.iter().map(|(s, p, o)| (tb.ids[s], tb.ids[p], tb.ids[o])).collect();
    let rules: Vec<Rule> = cs.rules.iter().map(|r| tb.rule(r, with_filters)).collect();
    let names = tb.names.clone();
    let m = least_model(&rules, &input, &move |id| names.get(id as usize).cloned());
    let goal = tb.pat(&cs.goal);
    let mut model = BTreeMap::new();
    let mut expected = BTreeMap::new();
    for f in &m.facts {
        let h = m.height[f];
        model.insert(tb.lex(*f), h);
        if match_fact(&goal, *f, &Subst::new()).is_some() {
            expected.insert(tb.lex(*f), h);
        }
    }
    Oracle { model, expected, outside_domain: m.outside_domain }
}

// ---------------------------------------------------------------------------------------
// search-size predictor (workload filter only, never an oracle): counts the unification
// attempts of a depth-bounded SLD search with memoisation on (normalised sub-goal, depth).

#[derive(Clone, Copy, PartialEq, Eq, Hash, Debug)]
enum Slot {
    C(u32),
    V(u8),
}
type NPat = [Slot; 3];
#[derive(Clone, Copy)]
enum ET {
    C(u32),
    V(usize),
}
struct ERule {
    prem: Vec<[ET; 3]>,
    concl: Vec<[ET; 3]>,
    nv: usize,
}
struct EstOut {
    res: Vec<(Fact, f64)>,
    work: f64,
}
struct Est {
    facts: Vec<Fact>,
    rules: Vec<ERule>,
    memo: HashMap<(NPat, usize), Rc<EstOut>>,
    limit: f64,
    blown: bool,
    steps: u64,
}

fn erule(r: &Rule) -> ERule {
    let mut names: Vec<String> = vec![];
    let mut conv = |t: &Term| -> ET {
        match t {
            Term::Constant(c) => ET::C(*c),
            Term::Variable(x) => {
                let i = match names.iter().position(|n| n == x) {
                    Some(i) => i,
                    None => {
                        names.push(x.clone());
                        names.len() - 1
                    }
                };
                ET::V(i)
            }
            Term::QuotedTriple(_) => unreachable!(),
        }
    };
    let prem: Vec<[ET; 3]> = r.premise.iter().map(|p| [conv(&p.0), conv(&p.1), conv(&p.2)]).collect();
    let concl: Vec<[ET; 3]> = r.conclusion.iter().map(|p| [conv(&p.0), conv(&p.1), conv(&p.2)]).collect();
    ERule { prem, concl, nv: names.len() }
}

fn npat_of(p: &TriplePattern) -> NPat {
    let mut names: Vec<String> = vec![];
    let mut conv = |t: &Term| -> Slot {
        match t {
            Term::Constant(c) => Slot::C(*c),
            Term::Variable(x) => {
                let i = match names.iter().position(|n| n == x) {
                    Some(i) => i,
                    None => {
                        names.push(x.clone());
                        names.len() - 1
                    }
                };
                Slot::V(i as u8)
            }
            Term::QuotedTriple(_) => unreachable!(),
        }
    };
    [conv(&p.0), conv(&p.1), conv(&p.2)]
}

fn find(uf: &mut [usize], mut i: usize) -> usize {
    while uf[i] != i {
        uf[i] = uf[uf[i]];
        i = uf[i];
    }
    i
}

impl Est {
    fn matches(p: &NPat, f: Fact) -> bool {
        let fv = [f.0, f.1, f.2];
        let mut b: [Option<u32>; 3] = [None; 3];
        for i in 0..3 {
            match p[i] {
                Slot::C(c) => {
                    if c != fv[i] {
                        return false;
                    }
                }
                Slot::V(j) => match b[j as usize] {
                    Some(x) if x != fv[i] => return false,
                    _ => b[j as usize] = Some(fv[i]),
                },
            }
        }
        true
    }

    fn est(&mut self, p: NPat, d: usize) -> Rc<EstOut> {
        if d > ENGINE_MAX_DEPTH {
            return Rc::new(EstOut { res: vec![], work: 1.0 });
        }
        if let Some(e) = self.memo.get(&(p, d)) {
            return e.clone();
        }
        self.steps += 1;
        if self.blown || self.steps > 60_000 {
            self.blown = true;
            return Rc::new(EstOut { res: vec![], work: f64::INFINITY });
        }
        let mut res: BTreeMap<Fact, f64> = BTreeMap::new();
        let mut work = (self.facts.len() + self.rules.len() + 1) as f64;
        for &f in &self.facts {
            if Self::matches(&p, f) {
                *res.entry(f).or_insert(0.0) += 1.0;
            }
        }
        for ri in 0..self.rules.len() {
            let nv = self.rules[ri].nv;
            for ci in 0..self.rules[ri].concl.len() {
                let concl = self.rules[ri].concl[ci];
                // nodes 0..3 = sub-goal variables, 3.. = rule variables
                let n = 3 + nv;
                let mut uf: Vec<usize> = (0..n).collect();
                let mut val: Vec<Option<u32>> = vec![None; n];
                let mut ok = true;
                for i in 0..3 {
                    let a = match p[i] {
                        Slot::C(c) => Err(c),
                        Slot::V(j) => Ok(j as usize),
                    };
                    let b = match concl[i] {
                        ET::C(c) => Err(c),
                        ET::V(x) => Ok(3 + x),
                    };
                    match (a, b) {
                        (Err(x), Err(y)) => ok &= x == y,
                        (Ok(node), Err(cst)) | (Err(cst), Ok(node)) => {
                            let r = find(&mut uf, node);
                            match val[r] {
                                Some(x) => ok &= x == cst,
                                None => val[r] = Some(cst),
                            }
                        }
                        (Ok(x), Ok(y)) => {
                            let (rx, ry) = (find(&mut uf, x), find(&mut uf, y));
                            if rx != ry {
                                match (val[rx], val[ry]) {
                                    (Some(a), Some(b)) if a != b => ok = false,
                                    (Some(a), _) => val[ry] = Some(a),
                                    _ => {}
                                }
                                uf[rx] = ry;
                            }
                        }
                    }
                    if !ok {
                        break;
                    }
                }
                if !ok {
                    continue;
                }
                // assignment per root node
                let mut start: Vec<Option<u32>> = vec![None; n];
                for i in 0..n {
                    let r = find(&mut uf, i);
                    start[r] = val[r];
                }
                let mut cur: BTreeMap<Vec<Option<u32>>, f64> = BTreeMap::new();
                cur.insert(start, 1.0);
                let nprem = self.rules[ri].prem.len();
                for pi in 0..nprem {
                    let prem = self.rules[ri].prem[pi];
                    let mut next: BTreeMap<Vec<Option<u32>>, f64> = BTreeMap::new();
                    for (asg, mult) in &cur {
                        // normalised sub-goal under this assignment
                        let mut roots: Vec<usize> = vec![];
                        let mut q: NPat = [Slot::C(0); 3];
                        let mut open: [Option<usize>; 3] = [None; 3];
                        for i in 0..3 {
                            q[i] = match prem[i] {
                                ET::C(c) => Slot::C(c),
                                ET::V(x) => {
                                    let r = find(&mut uf, 3 + x);
                                    match asg[r] {
                                        Some(c) => Slot::C(c),
                                        None => {
                                            let k = match roots.iter().position(|y| *y == r) {
                                                Some(k) => k,
                                                None => {
                                                    roots.push(r);
                                                    roots.len() - 1
                                                }
                                            };
                                            open[i] = Some(r);
                                            Slot::V(k as u8)
                                        }
                                    }
                                }
                            };
                        }
                        let sub = self.est(q, d + 1);
                        work += mult * sub.work;
                        if !(work <= self.limit) {
                            self.blown = true;
                            return Rc::new(EstOut { res: vec![], work: f64::INFINITY });
                        }
                        for (g, m) in &sub.res {
                            let gv = [g.0, g.1, g.2];
                            let mut a2 = asg.clone();
                            for i in 0..3 {
                                if let Some(r) = open[i] {
                                    a2[r] = Some(gv[i]);
                                }
                            }
                            *next.entry(a2).or_insert(0.0) += mult * m;
                        }
                    }
                    cur = next;
                    if cur.is_empty() {
                        break;
                    }
                }
                for (asg, mult) in &cur {
                    let mut g = [0u32; 3];
                    let mut ground = true;
                    for i in 0..3 {
                        g[i] = match p[i] {
                            Slot::C(c) => c,
                            Slot::V(j) => {
                                let r = find(&mut uf, j as usize);
                                match asg[r] {
                                    Some(c) => c,
                                    None => {
                                        ground = false;
                                        0
                                    }
                                }
                            }
                        };
                    }
                    if ground {
                        *res.entry((g[0], g[1], g[2])).or_insert(0.0) += mult;
                    }
                }
            }
        }
        let out = Rc::new(EstOut { res: res.into_iter().collect(), work });
        self.memo.insert((p, d), out.clone());
        out
    }
}

/// (predicted unification steps, predicted number of returned bindings); None = too large to predict
fn predict(cs: &Case, tb: &Table, limit: f64) -> Option<(f64, f64)> {
    let facts: BTreeSet<Fact> = cs.facts.iter().map(|(s, p, o)| (tb.ids[s], tb.ids[p], tb.ids[o])).collect();
    let rules: Vec<ERule> = cs.rules.iter().map(|r| erule(&tb.rule(r, false))).collect();
    let mut e = Est { facts: facts.into_iter().collect(), rules, memo: HashMap::new(), limit, blown: false, steps: 0 };
    let out = e.est(npat_of(&tb.pat(&cs.goal)), 0);
    if e.blown || !(out.work <= limit) {
        return None;
    }
    Some((out.work, out.res.iter().map(|(_, m)| *m).sum()))
}

// ---------------------------------------------------------------------------------------
// engine side

#[derive(Clone, Debug, Default, PartialEq)]
struct EngineOut {
    /// instantiated goals, lexical, with multiplicity
    ground: BTreeMap<T3, usize>,
    /// answers that leave a goal variable without a constant
    unbound: Vec<String>,
    /// resolve_term disagrees with following the binding chain by hand
    resolve_mismatch: Option<String>,
    raw: usize,
}

fn follow(t: &Term, m: &HashMap<String, Term>) -> Term {
    let mut cur = t.clone();
    for _ in 0..10_000 {
        match &cur {
            Term::Variable(x) => match m.get(x) {
                Some(n) => cur = n.clone(),
                None => return cur,
            },
            _ => return cur,
        }
    }
    cur
}

fn run_engine(cs: &Case, goal: &Pat) -> Result<EngineOut, String> {
    let mut re = Reasoner::new();
    for (s, p, o) in &cs.facts {
        re.add_abox_triple(s, p, o);
    }
    let enc = |re: &Reasoner, t: &PT| match t {
        PT::V(x) => Term::Variable(x.clone()),
        PT::C(x) => Term::Constant(re.dictionary.write().unwrap().encode(x)),
    };
    let encp = |re: &Reasoner, p: &Pat| -> TriplePattern { (enc(re, &p.0), enc(re, &p.1), enc(re, &p.2)) };
    for r in &cs.rules {
        let rule = Rule {
            premise: r.prem.iter().map(|p| encp(&re, p)).collect(),
            negative_premise: vec![],
            filters: r.filters.iter().map(|f| FilterCondition { variable: f.var.clone(), operator: f.op.clone(), value: f.val.clone() }).collect(),
            conclusion: r.concl.iter().map(|p| encp(&re, p)).collect(),
        };
        re.add_rule(rule);
    }
    let q = encp(&re, goal);
    guard(move || {
        let res = re.backward_chaining(&q);
        let dict = re.dictionary.read().unwrap();
        let mut out = EngineOut { raw: res.len(), ..Default::default() };
        for m in &res {
            let mut inst: Vec<Option<String>> = vec![];
            for t in [&q.0, &q.1, &q.2] {
                let got = match t {
                    Term::Constant(id) => Some(*id),
                    Term::Variable(x) => match m.get(x) {
                        None => None,
                        Some(b) => {
                            let by_engine = resolve_term(b, m);
                            let by_hand = follow(b, m);
                            if by_engine != by_hand && out.resolve_mismatch.is_none() {
                                out.resolve_mismatch = Some(format!("?{}: resolve_term gives {:?}, the binding chain ends in {:?}", x, by_engine, by_hand));
                            }
                            match by_engine {
                                Term::Constant(id) => Some(id),
                                _ => None,
                            }
                        }
                    },
                    Term::QuotedTriple(_) => None,
                };
                inst.push(got.and_then(|id| dict.decode(id).map(|s| s.to_string())));
            }
            match (&inst[0], &inst[1], &inst[2]) {
                (Some(s), Some(p), Some(o)) => *out.ground.entry((s.clone(), p.clone(), o.clone())).or_insert(0) += 1,
                _ => {
                    if out.unbound.len() < 3 {
                        out.unbound.push(format!("{:?}", inst));
                    } else {
                        out.unbound.push(String::new());
                    }
                }
            }
        }
        out
    })
}

// ---------------------------------------------------------------------------------------
// analysis of one case

#[derive(Clone, Debug)]
struct Finding {
    sig: Value,
    detail: Value,
}

#[derive(Default)]
struct Analysis {
    skipped: Option<&'static str>,
    findings: Vec<Finding>,
    evals: u64,
    predicted_steps: f64,
    predicted_results: f64,
    raw_results: usize,
    prediction_exact: Option<bool>,
    expected: BTreeMap<T3, u32>,
    returned_heights: Vec<u32>,
    duplicates: usize,
    beyond_demand_missing: usize,
    canonical_run: bool,
    /// distinct instantiated goals: as drawn / with renamed goal variables (None = panic)
    set_drawn: Option<BTreeSet<T3>>,
    set_renamed: Option<BTreeSet<T3>>,
    name_cause: &'static str,
    /// clash-free run, answers around the engine's bound: (expected, returned) at heights 9-10, returned at heights >= 11
    near_bound: (u64, u64, u64),
    model_size: usize,
}

struct Verdict {
    kind: &'static str,
    detail: Value,
}

/// compare one engine outcome with the oracle
fn judge(out: &Result<EngineOut, String>, or: &Oracle) -> Vec<Verdict> {
    let mut v = vec![];
    let out = match out {
        Err(e) => {
            v.push(Verdict { kind: "panic", detail: json!({"panic": e, "site": panic_site(e)}) });
            return v;
        }
        Ok(o) => o,
    };
    if let Some(m) = &out.resolve_mismatch {
        v.push(Verdict { kind: "resolve_term_does_not_follow_binding_chain", detail: json!({"first": m}) });
    }
    if !out.unbound.is_empty() {
        v.push(Verdict { kind: "answer_leaves_goal_variable_unbound", detail: json!({"answers_without_constant": out.unbound.len(), "first": out.unbound[0]}) });
    }
    let unsound: Vec<&T3> = out.ground.keys().filter(|t| !or.model.contains_key(*t)).collect();
    if !unsound.is_empty() {
        v.push(Verdict { kind: "answer_not_in_least_model", detail: json!({"count": unsound.len(), "first": unsound.iter().take(3).map(|t| t3_str(t)).collect::<Vec<_>>()}) });
    }
    let mut missing: Vec<(&T3, u32)> = or.expected.iter().filter(|(t, h)| **h <= DEMANDED_HEIGHT && !out.ground.contains_key(*t)).map(|(t, h)| (t, *h)).collect();
    missing.sort_by_key(|(t, h)| (*h, (*t).clone()));
    if !missing.is_empty() {
        v.push(Verdict {
            kind: "entailed_fact_within_depth_bound_not_returned",
            detail: json!({"count": missing.len(), "first": missing.iter().take(3).map(|(t, h)| format!("{} (height {})", t3_str(t), h)).collect::<Vec<_>>(), "min_height": missing[0].1}),
        });
    }
    v
}

fn answers_equal(a: &Result<EngineOut, String>, b: &Result<EngineOut, String>) -> bool {
    match (a, b) {
        (Ok(x), Ok(y)) => x.ground.keys().eq(y.ground.keys()) && x.unbound.is_empty() == y.unbound.is_empty(),
        (Err(_), Err(_)) => true,
        _ => false,
    }
}

fn analyse(cs: &Case, limit: f64) -> Analysis {
    let mut an = Analysis::default();
    if !cs.rules.iter().all(rule_safe_lex) {
        an.skipped = Some("unsafe_rule");
        return an;
    }
    let tb = Table::of(cs);
    debug_assert!(cs.rules.iter().all(|r| rule_is_safe(&tb.rule(r, true))));
    let or = oracle(cs, &tb, true);
    if or.outside_domain {
        an.skipped = Some("filter_outside_its_domain");
        return an;
    }
    an.model_size = or.model.len();
    let (steps, nres) = match predict(cs, &tb, limit) {
        Some(x) => x,
        None => {
            an.skipped = Some("predicted_search_too_large");
            return an;
        }
    };
    an.predicted_steps = steps;
    an.predicted_results = nres;
    an.expected = or.expected.clone();
    let has_filters = cs.rules.iter().any(|r| !r.filters.is_empty());

    // run 1: the goal as drawn
    let out1 = run_engine(cs, &cs.goal);
    an.evals += 1;
    let v1 = judge(&out1, &or);
    if let Ok(o) = &out1 {
        an.raw_results = o.raw;
        an.duplicates = o.raw - o.ground.len().min(o.raw);
        an.returned_heights = o.ground.keys().filter_map(|t| or.model.get(t).copied()).collect();
        an.beyond_demand_missing = or.expected.iter().filter(|(t, h)| **h > DEMANDED_HEIGHT && !o.ground.contains_key(*t)).count();
    }
    // run 2: same program, same order, goal variables renamed to names that are never generated
    let vars = goal_vars(&cs.goal);
    let cgoal = canonical_goal(&cs.goal);
    let (out2, v2) = if !vars.is_empty() && cgoal != cs.goal {
        an.canonical_run = true;
        an.evals += 1;
        let o = run_engine(cs, &cgoal);
        let v = judge(&o, &or);
        (o, v)
    } else {
        (out1.clone(), judge(&out1, &or))
    };
    if let Ok(o) = &out2 {
        for (t, h) in &or.expected {
            let got = o.ground.contains_key(t) as u64;
            if *h == 9 || *h == 10 {
                an.near_bound.0 += 1;
                an.near_bound.1 += got;
            } else if *h >= 11 {
                an.near_bound.2 += got;
            }
        }
        // the predictor models a search without name clashes; how often it is exact is evidence
        // that the workload filter means something
        if !has_filters {
            an.prediction_exact = Some((o.raw as f64 - nres).abs() < 0.5);
        }
    }
    let generated_like: Vec<&String> = vars.iter().filter(|x| is_generated_name(x)).collect();
    let name_cause = if !generated_like.is_empty() { "goal_variable_named_like_generated_rule_variable" } else { "goal_variable_names_other" };

    // name-independent findings: those of the canonical run
    if !v2.is_empty() {
        let mut cause = "independent_of_goal_variable_names";
        if has_filters {
            // experiment: is the engine's answer exactly that of the program without its filters?
            let or_nf = oracle(cs, &tb, false);
            if judge(&out2, &or_nf).is_empty() {
                cause = "rule_filters_ignored";
            }
        }
        for x in &v2 {
            let sig = if x.kind == "panic" { json!({"kind": "panic", "site": x.detail["site"], "cause": cause}) } else { json!({"kind": x.kind, "cause": cause}) };
            an.findings.push(Finding { sig, detail: json!({"case": case_json(cs), "goal_as_run": pat_str(&cgoal), "observed": x.detail, "model_facts_matching_goal": or.expected.len()}) });
        }
    }
    // name-dependent findings
    if !answers_equal(&out1, &out2) {
        let ret = |o: &Result<EngineOut, String>| match o {
            Ok(o) => json!(o.ground.keys().take(6).map(t3_str).collect::<Vec<_>>()),
            Err(e) => json!({"panic": e}),
        };
        let mk = |kind: &str, site: Option<&Value>, observed: Value| {
            let sig = match site {
                Some(s) => json!({"kind": kind, "site": s, "cause": name_cause}),
                None => json!({"kind": kind, "cause": name_cause}),
            };
            Finding {
                sig,
                detail: json!({"case": case_json(cs), "observed": observed, "clashing_goal_variables": generated_like, "same_goal_with_renamed_variables": pat_str(&cgoal),
                    "answers_as_drawn": ret(&out1), "answers_with_renamed_variables": ret(&out2), "renamed_run_agrees_with_oracle": v2.is_empty(), "model_facts_matching_goal": or.expected.len()}),
            }
        };
        if v2.is_empty() && !v1.is_empty() {
            for x in &v1 {
                an.findings.push(mk(x.kind, if x.kind == "panic" { Some(&x.detail["site"]) } else { None }, x.detail.clone()));
            }
        } else {
            an.findings.push(mk("answers_depend_on_goal_variable_names", None, json!({"as_drawn": v1.iter().map(|x| x.kind).collect::<Vec<_>>()})));
        }
    }
    an.set_drawn = out1.as_ref().ok().map(|o| o.ground.keys().cloned().collect());
    an.set_renamed = out2.as_ref().ok().map(|o| o.ground.keys().cloned().collect());
    an.name_cause = name_cause;
    an
}

// ---------------------------------------------------------------------------------------
// witness minimisation: drop rules, facts, premises, conclusions while the signature stays

fn shrink(cs: &Case, sig: &Value, limit: f64) -> (Case, u32) {
    let mut best = cs.clone();
    let mut tries = 0u32;
    let still = |c: &Case, tries: &mut u32| -> bool {
        *tries += 1;
        analyse(c, limit).findings.iter().any(|f| &f.sig == sig)
    };
    loop {
        let mut changed = false;
        let mut i = 0;
        while i < best.rules.len() && tries < 300 {
            let mut c2 = best.clone();
            c2.rules.remove(i);
            if still(&c2, &mut tries) {
                best = c2;
                changed = true;
            } else {
                i += 1;
            }
        }
        let mut i = 0;
        while i < best.facts.len() && tries < 300 {
            let mut c2 = best.clone();
            c2.facts.remove(i);
            if still(&c2, &mut tries) {
                best = c2;
                changed = true;
            } else {
                i += 1;
            }
        }
        for ri in 0..best.rules.len() {
            let mut pi = 0;
            while best.rules[ri].prem.len() > 1 && pi < best.rules[ri].prem.len() && tries < 300 {
                let mut c2 = best.clone();
                c2.rules[ri].prem.remove(pi);
                if rule_safe_lex(&c2.rules[ri]) && still(&c2, &mut tries) {
                    best = c2;
                    changed = true;
                } else {
                    pi += 1;
                }
            }
            let mut ci = 0;
            while best.rules[ri].concl.len() > 1 && ci < best.rules[ri].concl.len() && tries < 300 {
                let mut c2 = best.clone();
                c2.rules[ri].concl.remove(ci);
                if still(&c2, &mut tries) {
                    best = c2;
                    changed = true;
                } else {
                    ci += 1;
                }
            }
            let mut fi = 0;
            while fi < best.rules[ri].filters.len() && tries < 300 {
                let mut c2 = best.clone();
                c2.rules[ri].filters.remove(fi);
                if still(&c2, &mut tries) {
                    best = c2;
                    changed = true;
                } else {
                    fi += 1;
                }
            }
        }
        // goal: give a clashing variable a plain name, or bind a variable to a constant
        for (vi, x) in goal_vars(&best.goal).iter().enumerate() {
            if tries >= 300 {
                break;
            }
            let mut cands: Vec<PT> = vec![];
            if is_generated_name(x) {
                cands.push(PT::V(format!("Q{}", vi)));
            }
            let tb = Table::of(&best);
            cands.extend(tb.names.iter().map(|n| PT::C(n.clone())));
            for cand in cands {
                let sub = |t: &PT| if *t == PT::V(x.clone()) { cand.clone() } else { t.clone() };
                let mut c2 = best.clone();
                c2.goal = (sub(&best.goal.0), sub(&best.goal.1), sub(&best.goal.2));
                if still(&c2, &mut tries) {
                    best = c2;
                    changed = true;
                    break;
                }
                if tries >= 300 {
                    break;
                }
            }
        }
        if !changed || tries >= 300 {
            break;
        }
    }
    (best, tries)
}

// ---------------------------------------------------------------------------------------
// generators

struct Tpl {
    name: &'static str,
    rules: &'static str,
    base: &'static [&'static str],
    fixed: &'static [(&'static str, &'static str, &'static str)],
    goal_preds: &'static [&'static str],
}

const TEMPLATES: &[Tpl] = &[
    Tpl { name: "copy", rules: "?X q ?Y => ?X p ?Y", base: &["q", "p"], fixed: &[], goal_preds: &["p"] },
    Tpl { name: "swap", rules: "?X q ?Y => ?Y p ?X", base: &["q", "p"], fixed: &[], goal_preds: &["p"] },
    Tpl { name: "join", rules: "?X q ?Y , ?Y r ?Z => ?X p ?Z", base: &["q", "r"], fixed: &[], goal_preds: &["p"] },
    Tpl { name: "join_reversed_head", rules: "?X q ?Y , ?Y r ?Z => ?Z p ?X", base: &["q", "r"], fixed: &[], goal_preds: &["p"] },
    Tpl { name: "closure_right_linear", rules: "?X e ?Y => ?X t ?Y ; ?X e ?Y , ?Y t ?Z => ?X t ?Z", base: &["e"], fixed: &[], goal_preds: &["t"] },
    Tpl { name: "closure_left_linear", rules: "?X e ?Y => ?X t ?Y ; ?X t ?Y , ?Y e ?Z => ?X t ?Z", base: &["e"], fixed: &[], goal_preds: &["t"] },
    Tpl { name: "closure_non_linear", rules: "?X e ?Y => ?X t ?Y ; ?X t ?Y , ?Y t ?Z => ?X t ?Z", base: &["e"], fixed: &[], goal_preds: &["t"] },
    Tpl { name: "symmetric", rules: "?X p ?Y => ?Y p ?X", base: &["p"], fixed: &[], goal_preds: &["p"] },
    Tpl { name: "multi_conclusion", rules: "?X q ?Y => ?X p ?Y , ?Y r ?X", base: &["q"], fixed: &[], goal_preds: &["p", "r"] },
    Tpl { name: "constant_in_head", rules: "?X q ?Y => ?X p n0", base: &["q"], fixed: &[], goal_preds: &["p"] },
    Tpl { name: "constant_in_premise", rules: "?X q n0 => ?X p ?X", base: &["q"], fixed: &[("n1", "q", "n0")], goal_preds: &["p"] },
    Tpl { name: "repeated_variable_in_premise", rules: "?X q ?X => ?X p n1", base: &["q"], fixed: &[("n2", "q", "n2")], goal_preds: &["p"] },
    Tpl { name: "repeated_variable_in_head", rules: "?X q ?Y => ?Y p ?Y", base: &["q"], fixed: &[], goal_preds: &["p"] },
    Tpl { name: "sub_property_variable_predicate", rules: "?X ?R ?Y , ?R sub ?S => ?X ?S ?Y", base: &["q"], fixed: &[("q", "sub", "p"), ("p", "sub", "r")], goal_preds: &["p", "r"] },
    Tpl { name: "type_propagation", rules: "?X type ?C , ?C sub ?D => ?X type ?D", base: &[], fixed: &[("n0", "type", "k0"), ("n1", "type", "k1"), ("k0", "sub", "k1"), ("k1", "sub", "k2")], goal_preds: &["type"] },
    Tpl { name: "two_steps", rules: "?X q ?Y => ?Y r ?X ; ?X r ?Y => ?X p ?Y", base: &["q"], fixed: &[], goal_preds: &["p"] },
    Tpl { name: "mutual_recursion", rules: "?X p ?Y => ?Y q ?X ; ?X q ?Y , ?Y e ?Z => ?X p ?Z", base: &["p", "e"], fixed: &[], goal_preds: &["p", "q"] },
    Tpl { name: "rule_variables_named_like_plain_goal", rules: "?A q ?B => ?B p ?A", base: &["q"], fixed: &[], goal_preds: &["p"] },
    Tpl { name: "rule_variables_named_like_generated", rules: "?v1 q ?v0 => ?v0 p ?v1 ; ?v2 p ?v0 , ?v0 q ?v1 => ?v2 r ?v1", base: &["q"], fixed: &[], goal_preds: &["p", "r"] },
    Tpl { name: "three_rules_one_head", rules: "?X q ?Y => ?X p ?Y ; ?X r ?Y => ?X p ?Y ; ?X p ?Y , ?Y q ?Z => ?X p ?Z", base: &["q", "r"], fixed: &[], goal_preds: &["p"] },
    // conclusions of one rule that share a predicate, so that several of them unify with one
    // sub-goal (some proving it, some not), feeding the first / both premises of a join
    Tpl { name: "two_headed_symmetric_under_join", rules: "?X q ?Y => ?X r ?Y , ?Y r ?X ; ?X r ?Y , ?Y r ?Z => ?X p ?Z", base: &["q"], fixed: &[], goal_preds: &["p", "r"] },
    Tpl { name: "two_headed_reflexive_under_join", rules: "?X q ?Y => ?X r ?X , ?X r ?Y ; ?X r ?Y , ?Y q ?Z => ?X p ?Z ; ?X q ?Y => ?X e ?Y", base: &["q"], fixed: &[], goal_preds: &["p", "r"] },
    Tpl { name: "three_headed_under_two_joins", rules: "?X q ?Y => ?X r ?Y , ?Y r ?X , ?Y e ?X ; ?X r ?Y , ?Y e ?Z => ?X t ?Z ; ?X t ?Y , ?Y r ?Z => ?X p ?Z", base: &["q"], fixed: &[], goal_preds: &["p", "t"] },
];

/// names for the (subject, predicate, object) goal variables
const NAMINGS: &[[&str; 3]] = &[
    ["A", "B", "C"],
    ["X", "Z", "Y"],
    ["Y", "Z", "X"],
    ["v0", "v2", "v1"],
    ["v1", "v2", "v0"],
    ["v2", "v4", "v3"],
    ["v1", "v0", "v2"],
    ["v3", "v5", "v1"],
    ["v10", "v12", "v11"],
    ["v0", "P", "O"],
    ["S", "P", "v1"],
    ["S", "v0", "O"],
    ["V0", "V2", "V1"],
    ["v", "v_1", "v00"],
    // generated-looking names whose index is at the end of the counter's range
    ["v18446744073709551615", "P", "v0"],
    ["v18446744073709551614", "v1", "v0"],
];
const N_SHAPES: usize = 12;

/// goal shape i in 0..12: subject var/const x predicate const/var x object var/repeated/const
fn shaped_goal(shape: usize, names: &[&str; 3], pred: &str, sc: &str, oc: &str) -> (Pat, String) {
    let s_var = shape % 2 == 0;
    let p_var = (shape / 2) % 2 == 1;
    let o_kind = shape / 4; // 0 var, 1 repeated, 2 const
    let s = if s_var { v(names[0]) } else { c(sc) };
    let p = if p_var { v(names[1]) } else { c(pred) };
    let o = match o_kind {
        0 => v(names[2]),
        1 => {
            if s_var {
                v(names[0])
            } else if p_var {
                v(names[1])
            } else {
                v(names[2])
            }
        }
        _ => c(oc),
    };
    let label = format!("s={},p={},o={}", if s_var { "var" } else { "const" }, if p_var { "var" } else { "const" }, ["var", "repeated_var", "const"][o_kind]);
    ((s, p, o), label)
}

fn ent(i: usize) -> String {
    format!("n{}", i)
}

fn gen_names(ctx: &Ctx, k: u64) -> (Case, String, String, String) {
    let per_variant = (TEMPLATES.len() * N_SHAPES * NAMINGS.len()) as u64;
    let variant = k / per_variant;
    let rest = (k % per_variant) as usize;
    let ti = rest / (N_SHAPES * NAMINGS.len());
    let shape = (rest / NAMINGS.len()) % N_SHAPES;
    let ni = rest % NAMINGS.len();
    let t = &TEMPLATES[ti];
    // the fact set depends on (template, variant) only, so that all shapes and namings see the same program
    let mut r = ctx.rng_labeled("facts", variant * TEMPLATES.len() as u64 + ti as u64);
    let n_ent = r.range(3, 4);
    let mut facts: BTreeSet<T3> = t.fixed.iter().map(|(s, p, o)| (s.to_string(), p.to_string(), o.to_string())).collect();
    if !t.base.is_empty() {
        let nf = r.range(3, 7);
        for _ in 0..nf {
            // mostly forward edges: keeps the recursive templates searchable
            let a = r.below(n_ent);
            let b = if r.chance(3, 4) { (a + 1 + r.below(n_ent - 1).min(1)) % n_ent } else { r.below(n_ent) };
            facts.insert((ent(a), r.pick(t.base).to_string(), ent(b)));
        }
    }
    let pred = t.goal_preds[(variant as usize + shape) % t.goal_preds.len()];
    let mut rg = ctx.rng_labeled("goalconst", variant * 1000 + (ti * N_SHAPES + shape) as u64);
    let sc = if t.name == "type_propagation" { ent(rg.below(2)) } else { ent(rg.below(n_ent)) };
    let oc = if t.name == "type_propagation" { format!("k{}", rg.below(3)) } else { ent(rg.below(n_ent)) };
    let (goal, label) = shaped_goal(shape, &NAMINGS[ni], pred, &sc, &oc);
    (Case { facts: facts.into_iter().collect(), rules: parse_rules(t.rules), goal }, t.name.to_string(), label, NAMINGS[ni].join(","))
}

const PLAIN_NAMES: &[&str] = &["X", "Y", "Z", "A", "B", "W"];
const GEN_NAMES: &[&str] = &["v0", "v1", "v2", "v3", "v4", "v5", "v6", "v9"];

fn random_goal(r: &mut Rng, ents: &[String], preds: &[String], rule_vars: &[String]) -> Pat {
    // three distinct names
    let mut pool: Vec<String> = match r.below(10) {
        0..=2 => PLAIN_NAMES.iter().map(|s| s.to_string()).collect(),
        3 => {
            if rule_vars.len() >= 2 {
                let mut p = rule_vars.to_vec();
                p.extend(PLAIN_NAMES.iter().map(|s| s.to_string()));
                p.dedup();
                p
            } else {
                PLAIN_NAMES.iter().map(|s| s.to_string()).collect()
            }
        }
        4..=7 => GEN_NAMES.iter().map(|s| s.to_string()).collect(),
        _ => GEN_NAMES.iter().chain(PLAIN_NAMES.iter()).map(|s| s.to_string()).collect(),
    };
    let mut uniq: Vec<String> = vec![];
    for p in pool.drain(..) {
        if !uniq.contains(&p) {
            uniq.push(p);
        }
    }
    if r.chance(1, 2) {
        r.shuffle(&mut uniq);
    }
    let names = [uniq[0].clone(), uniq[1].clone(), uniq[2].clone()];
    let s = if r.chance(60, 100) { PT::V(names[0].clone()) } else { PT::C(r.pick(ents).clone()) };
    let p = if r.chance(15, 100) { PT::V(names[1].clone()) } else { PT::C(r.pick(preds).clone()) };
    let o = match r.below(20) {
        0..=10 => PT::V(names[2].clone()),
        11..=12 => match (&s, &p) {
            (PT::V(x), _) => PT::V(x.clone()),
            (_, PT::V(x)) => PT::V(x.clone()),
            _ => PT::V(names[2].clone()),
        },
        _ => PT::C(r.pick(ents).clone()),
    };
    (s, p, o)
}

fn gen_random(r: &mut Rng, thorough: bool) -> Case {
    let n_ent = r.range(2, if thorough { 5 } else { 4 });
    let n_pred = r.range(2, 3);
    let ents: Vec<String> = (0..n_ent).map(ent).collect();
    let preds: Vec<String> = ["p", "q", "r"][..n_pred].iter().map(|s| s.to_string()).collect();
    let n_facts = [0, 1, 2, 3, 4, 5, 6, 7, 8, 10, 12][r.weighted(&[1, 1, 2, 4, 5, 5, 4, 3, 2, 1, 1])];
    let mut facts: BTreeSet<T3> = BTreeSet::new();
    let meta = r.chance(1, 6);
    for _ in 0..n_facts {
        if meta && r.chance(1, 4) {
            facts.insert((r.pick(&preds).clone(), "sub".to_string(), r.pick(&preds).clone()));
        } else {
            facts.insert((r.pick(&ents).clone(), r.pick(&preds).clone(), r.pick(&ents).clone()));
        }
    }
    let var_sets: [&[&str]; 4] = [&["X", "Y", "Z"], &["A", "B", "C"], &["v0", "v1", "v2"], &["v2", "X", "v0"]];
    let n_rules = 1 + r.weighted(&[4, 4, 2]);
    let mut rules = vec![];
    let mut rule_vars: Vec<String> = vec![];
    for _ in 0..n_rules {
        let vars = var_sets[r.weighted(&[6, 2, 2, 1])];
        let np = if thorough && r.chance(1, 12) { 3 } else { r.range(1, 2) };
        let mut rule = None;
        for _attempt in 0..20 {
            let mut prem: Vec<Pat> = vec![];
            for _ in 0..np {
                let s = if r.chance(85, 100) { v(*r.pick(vars)) } else { PT::C(r.pick(&ents).clone()) };
                let p = if meta && r.chance(1, 3) { v(*r.pick(vars)) } else if r.chance(1, 25) { v(*r.pick(vars)) } else if meta && r.chance(1, 5) { c("sub") } else { PT::C(r.pick(&preds).clone()) };
                let o = if r.chance(80, 100) { v(*r.pick(vars)) } else { PT::C(r.pick(&ents).clone()) };
                prem.push((s, p, o));
            }
            let bound: Vec<String> = {
                let mut b: Vec<String> = vec![];
                for p in &prem {
                    for t in pat_terms(p) {
                        if let PT::V(x) = t {
                            if !b.contains(x) {
                                b.push(x.clone());
                            }
                        }
                    }
                }
                b
            };
            if bound.is_empty() {
                continue;
            }
            if np >= 2 && r.chance(4, 5) {
                // premises should share a variable (a join), mostly
                let vs = |p: &Pat| -> BTreeSet<String> { pat_terms(p).iter().filter_map(|t| if let PT::V(x) = t { Some(x.clone()) } else { None }).collect() };
                if vs(&prem[0]).is_disjoint(&vs(&prem[1])) {
                    continue;
                }
            }
            let nc = if r.chance(1, 5) { 2 } else if r.chance(1, 16) { 3 } else { 1 };
            // in half of the multi-conclusion rules every conclusion has the same predicate
            let shared_head_pred = if nc > 1 && r.coin() { Some(r.pick(&preds).clone()) } else { None };
            let mut concl = vec![];
            for _ in 0..nc {
                let ht = |r: &mut Rng| if r.chance(82, 100) { PT::V(r.pick(&bound).clone()) } else { PT::C(r.pick(&ents).clone()) };
                let s = ht(r);
                let o = ht(r);
                // a variable in predicate position of a head only when it is one bound in predicate position
                let pvars: Vec<String> = prem.iter().filter_map(|p| if let PT::V(x) = &p.1 { Some(x.clone()) } else { None }).collect();
                let p = if let Some(sp) = &shared_head_pred { PT::C(sp.clone()) } else if !pvars.is_empty() && r.chance(1, 2) { PT::V(r.pick(&pvars).clone()) } else { PT::C(r.pick(&preds).clone()) };
                concl.push((s, p, o));
            }
            rule = Some(RuleS { prem, concl, filters: vec![] });
            break;
        }
        if let Some(ru) = rule {
            for p in &ru.prem {
                for t in pat_terms(p) {
                    if let PT::V(x) = t {
                        if !rule_vars.contains(x) {
                            rule_vars.push(x.clone());
                        }
                    }
                }
            }
            rules.push(ru);
        }
    }
    let mut gp = preds.clone();
    if meta {
        gp.push("sub".to_string());
    }
    let goal = random_goal(r, &ents, &gp, &rule_vars);
    Case { facts: facts.into_iter().collect(), rules, goal }
}

fn gen_depth(r: &mut Rng) -> (Case, &'static str) {
    let len = r.range(2, 13);
    let mut facts: Vec<T3> = (0..len).map(|i| (ent(i), "e".to_string(), ent(i + 1))).collect();
    if r.chance(1, 3) {
        // a side branch
        let a = r.below(len);
        facts.push((ent(a), "e".to_string(), "m0".to_string()));
    }
    let kind = r.below(6);
    let (rules, name, head_preds): (Vec<RuleS>, &'static str, Vec<String>) = match kind {
        0 => (parse_rules("?X e ?Y => ?X t ?Y ; ?X e ?Y , ?Y t ?Z => ?X t ?Z"), "closure_right_linear", vec!["t".into()]),
        1 => (parse_rules("?X e ?Y => ?X t ?Y ; ?X t ?Y , ?Y e ?Z => ?X t ?Z"), "closure_left_linear", vec!["t".into()]),
        2 => {
            facts.push((ent(0), "mark".to_string(), "yes".to_string()));
            (parse_rules("?X mark ?M , ?X e ?Y => ?Y mark ?M"), "marker_propagation", vec!["mark".into()])
        }
        3 => {
            facts.push((ent(0), "even".to_string(), "yes".to_string()));
            (parse_rules("?X even yes , ?X e ?Y => ?Y odd yes ; ?X odd yes , ?X e ?Y => ?Y even yes"), "even_odd", vec!["even".into(), "odd".into()])
        }
        4 => {
            // ladder: s0 -> s1 -> … one rule per step, alternately copying and swapping
            let mut text = vec![];
            for i in 0..len {
                if i % 2 == 0 {
                    text.push(format!("?X s{} ?Y => ?X s{} ?Y", i, i + 1));
                } else {
                    text.push(format!("?X s{} ?Y => ?Y s{} ?X", i, i + 1));
                }
            }
            facts = vec![("n0".into(), "s0".into(), "n1".into()), ("n2".into(), "s0".into(), "n0".into())];
            let hp = (0..=len).map(|i| format!("s{}", i)).collect();
            (parse_rules(&text.join(" ; ")), "ladder_of_rules", hp)
        }
        _ => {
            // closure towards a fixed target with the goal variables reused inside the rules
            (parse_rules("?v0 e ?v1 => ?v0 t ?v1 ; ?v1 e ?v2 , ?v2 t ?v0 => ?v1 t ?v0"), "closure_with_generated_like_rule_variables", vec!["t".into()])
        }
    };
    let names: [&str; 3] = *r.pick(&[["A", "P", "B"], ["X", "P", "Y"], ["Y", "P", "X"], ["v0", "v2", "v1"], ["v1", "v0", "v2"], ["v3", "v4", "v5"], ["Z", "P", "v1"]]);
    let pred = if kind == 4 && r.chance(2, 3) { head_preds[head_preds.len() - 1 - r.below(3.min(head_preds.len()))].clone() } else { r.pick(&head_preds).clone() };
    let goal: Pat = match kind {
        2 | 3 => match r.below(4) {
            0 => (v(names[0]), c(&pred), c("yes")),
            1 => (v(names[0]), c(&pred), v(names[2])),
            2 => (c(&ent(r.range(0, len))), c(&pred), v(names[2])),
            _ => (v(names[0]), v(names[1]), c("yes")),
        },
        4 => match r.below(4) {
            0 => (v(names[0]), c(&pred), v(names[2])),
            1 => (c("n0"), c(&pred), v(names[2])),
            2 => (v(names[0]), c(&pred), c("n1")),
            _ => (v(names[0]), v(names[1]), v(names[2])),
        },
        _ => match r.below(6) {
            0 => (c("n0"), c(&pred), v(names[2])),
            1 => (v(names[0]), c(&pred), c(&ent(len))),
            2 => (v(names[0]), c(&pred), v(names[2])),
            3 => (c("n0"), c(&pred), c(&ent(len))),
            4 => (c(&ent(r.below(len))), c(&pred), v(names[2])),
            _ => (c("n0"), v(names[1]), v(names[2])),
        },
    };
    (Case { facts, rules, goal }, name)
}

fn gen_filters(r: &mut Rng) -> Case {
    let n_ent = r.range(2, 5);
    let mut facts: BTreeSet<T3> = BTreeSet::new();
    for i in 0..n_ent {
        facts.insert((ent(i), "val".to_string(), r.range(0, 12).to_string()));
        if r.chance(1, 2) {
            facts.insert((ent(i), "e".to_string(), ent(r.below(n_ent))));
        }
    }
    let op = |r: &mut Rng| r.pick(&[">", "<", ">=", "<=", "=", "!="]).to_string();
    let mut rules = vec![];
    let mut r1 = parse_rules("?X val ?N => ?X is big").remove(0);
    r1.filters.push(Flt { var: "N".into(), op: op(r), val: r.range(1, 11).to_string() });
    rules.push(r1);
    match r.below(8) {
        0 => {}
        5 | 6 => {
            // the filtered variable also occurs in the conclusion: with an open goal the
            // renamed rule variable is bound through the goal's variable
            let mut r2 = parse_rules("?X val ?N => ?X bigval ?N").remove(0);
            r2.filters.push(Flt { var: "N".into(), op: op(r), val: r.range(1, 11).to_string() });
            rules.push(r2);
        }
        7 => {
            // variable-to-variable filter over variables of the conclusion
            let mut r2 = parse_rules("?X e ?Z , ?Y e ?Z => ?X sib ?Y").remove(0);
            r2.filters.push(Flt { var: "X".into(), op: r.pick(&["=", "!="]).to_string(), val: "Y".into() });
            rules.push(r2);
        }
        4 => {
            // filter comparing two rule variables
            let mut r2 = parse_rules("?X val ?N , ?Y val ?M => ?X above ?Y").remove(0);
            r2.filters.push(Flt { var: "N".into(), op: r.pick(&["=", "!="]).to_string(), val: "M".into() });
            rules.push(r2);
        }
        1 => {
            let mut r2 = parse_rules("?X val ?N , ?X e ?Y => ?Y near ?X").remove(0);
            r2.filters.push(Flt { var: "N".into(), op: op(r), val: r.range(1, 11).to_string() });
            rules.push(r2);
        }
        2 => rules.extend(parse_rules("?X is big , ?X e ?Y => ?Y is big")),
        _ => {
            let mut r2 = parse_rules("?X val ?N , ?Y val ?M , ?X e ?Y => ?X above ?Y").remove(0);
            r2.filters.push(Flt { var: "N".into(), op: op(r), val: r.range(1, 11).to_string() });
            r2.filters.push(Flt { var: "M".into(), op: op(r), val: r.range(1, 11).to_string() });
            rules.push(r2);
        }
    }
    let names: [&str; 2] = *r.pick(&[["A", "B"], ["X", "Y"], ["N", "M"]]);
    let head_preds: Vec<String> = rules.iter().flat_map(|rl| rl.concl.iter()).filter_map(|p| if let PT::C(x) = &p.1 { Some(x.clone()) } else { None }).collect();
    let goal: Pat = match r.below(8) {
        5 => (v(names[0]), c(r.pick(&head_preds[..]).as_str()), v(names[1])),
        6 => (c(&ent(r.below(n_ent))), c(r.pick(&head_preds[..]).as_str()), v(names[0])),
        7 => (v(names[0]), c(r.pick(&head_preds[..]).as_str()), c(&if r.coin() { ent(r.below(n_ent)) } else { r.range(0, 12).to_string() })),
        0 => (v(names[0]), c("is"), c("big")),
        1 => (v(names[0]), c("is"), v(names[1])),
        2 => (v(names[0]), c(*r.pick(&["near", "above", "is"])), v(names[1])),
        3 => (c(&ent(r.below(n_ent))), v(names[0]), v(names[1])),
        _ => (c(&ent(r.below(n_ent))), c("is"), c("big")),
    };
    Case { facts: facts.into_iter().collect(), rules, goal }
}

// ---------------------------------------------------------------------------------------

fn features(cs: &Case) -> Vec<&'static str> {
    let mut f = vec![];
    let head_preds: BTreeSet<&PT> = cs.rules.iter().flat_map(|r| r.concl.iter().map(|p| &p.1)).collect();
    if cs.rules.iter().any(|r| r.prem.iter().any(|p| head_preds.contains(&p.1) || matches!(p.1, PT::V(_)))) {
        f.push("recursive_or_chained");
    }
    if cs.rules.iter().any(|r| r.concl.len() > 1) {
        f.push("multi_conclusion");
    }
    if cs.rules.iter().any(|r| r.prem.len() > 1) {
        f.push("join");
    }
    if cs.rules.iter().any(|r| r.concl.iter().any(|p| matches!(p.0, PT::C(_)) || matches!(p.2, PT::C(_)))) {
        f.push("constant_in_head");
    }
    if cs.rules.iter().any(|r| r.prem.iter().any(|p| matches!(p.0, PT::C(_)) || matches!(p.2, PT::C(_)))) {
        f.push("constant_in_premise");
    }
    if cs.rules.iter().any(|r| r.prem.iter().chain(r.concl.iter()).any(|p| p.0 == p.2 && matches!(p.0, PT::V(_)))) {
        f.push("repeated_variable_in_pattern");
    }
    if cs.rules.iter().any(|r| r.prem.iter().chain(r.concl.iter()).any(|p| matches!(p.1, PT::V(_)))) {
        f.push("variable_predicate");
    }
    if cs.rules.iter().any(|r| !r.filters.is_empty()) {
        f.push("filter");
    }
    let gv = goal_vars(&cs.goal);
    if cs.rules.iter().any(|r| r.prem.iter().flat_map(|p| pat_terms(p)).any(|t| matches!(t, PT::V(x) if gv.contains(x)))) {
        f.push("goal_shares_a_variable_name_with_a_rule");
    }
    f
}

fn record(ctx: &mut Ctx, cs: &Case, an: &Analysis, shrunk: &mut HashSet<String>, limit: f64) {
    ctx.add_evals(an.evals);
    if let Some(why) = an.skipped {
        ctx.count(&format!("skipped.{}", why), 1);
        return;
    }
    ctx.count("cases_checked", 1);
    let gv = goal_vars(&cs.goal);
    let clash = gv.iter().any(|x| is_generated_name(x));
    ctx.count(if clash { "goals_with_a_variable_named_like_generated" } else if gv.is_empty() { "goals_ground" } else { "goals_with_other_variable_names" }, 1);
    ctx.count(&format!("goal_variables.{}", gv.len()), 1);
    if an.canonical_run {
        ctx.count("runs_with_renamed_goal_variables", 1);
    }
    for f in features(cs) {
        ctx.count(&format!("feature.{}", f), 1);
    }
    ctx.count("answers_returned", an.raw_results as u64);
    ctx.count("duplicate_answers_returned", an.duplicates as u64);
    ctx.max("max_answers_in_a_case", an.raw_results as u64);
    ctx.max("max_predicted_unification_steps", an.predicted_steps as u64);
    ctx.max("max_model_size", an.model_size as u64);
    match an.prediction_exact {
        Some(true) => ctx.count("search_size_prediction.exact", 1),
        Some(false) => ctx.count("search_size_prediction.differs", 1),
        None => {}
    }
    for h in an.expected.values() {
        ctx.count(&format!("expected_answers_by_height.{:02}", h), 1);
    }
    for h in &an.returned_heights {
        ctx.count(&format!("returned_answers_by_height.{:02}", h), 1);
        ctx.max("max_height_of_a_returned_answer", *h as u64);
    }
    ctx.count("entailed_answers_above_demanded_height_not_returned", an.beyond_demand_missing as u64);
    ctx.count("clash_free_runs.answers_of_height_9_or_10.expected", an.near_bound.0);
    ctx.count("clash_free_runs.answers_of_height_9_or_10.returned", an.near_bound.1);
    ctx.count("clash_free_runs.answers_of_height_11_or_more.returned", an.near_bound.2);
    if an.expected.values().any(|h| *h >= 1) {
        ctx.nontrivial(hash_str(&case_json(cs).to_string()));
        ctx.count("cases_needing_a_rule", 1);
    }
    if an.expected.values().any(|h| *h >= 2) {
        ctx.count("cases_with_answer_of_height_2_or_more", 1);
    }
    if an.expected.is_empty() {
        ctx.count("cases_with_empty_expected_answer", 1);
    }
    for f in &an.findings {
        let key = f.sig.to_string();
        let mut detail = f.detail.clone();
        if shrunk.insert(key) {
            let (small, tries) = shrink(cs, &f.sig, limit);
            let again = analyse(&small, limit);
            if let Some(g) = again.findings.iter().find(|g| g.sig == f.sig) {
                detail = json!({"minimised": g.detail, "minimisation_steps": tries, "as_generated": f.detail});
            }
        }
        ctx.violation(f.sig.clone(), detail);
    }
}

/// Address-space cap for a worker process.  The workload only contains cases whose predicted
/// search is a few 10^4 unification steps (a few MB); an engine whose search explodes far
/// beyond that then dies with an allocation failure (SIGABRT) while the case is in progress,
/// which the runtime reports as `process_abort` for that case, instead of running into the
/// wall-clock watchdog (inconclusive).  No wall-clock quantity is involved.
fn cap_address_space(bytes: u64) {
    #[repr(C)]
    struct RLimit {
        cur: u64,
        max: u64,
    }
    extern "C" {
        fn setrlimit(resource: i32, rlim: *const RLimit) -> i32;
    }
    #[cfg(all(target_os = "linux", target_pointer_width = "64"))]
    unsafe {
        const RLIMIT_AS: i32 = 9;
        let lim = RLimit { cur: bytes, max: bytes };
        let _ = setrlimit(RLIMIT_AS, &lim);
    }
}

fn run(ctx: &mut Ctx) {
    cap_address_space(2 << 30);
    let thorough = ctx.thorough();
    let limit: f64 = ctx.by_tier(40_000.0, 200_000.0);
    let depth_limit: f64 = ctx.by_tier(160_000.0, 400_000.0);
    let mut shrunk: HashSet<String> = HashSet::new();

    // --- names: templates x goal shapes x goal-variable namings, complete per fact variant
    let per_variant = (TEMPLATES.len() * N_SHAPES * NAMINGS.len()) as u64;
    ctx.phase("names", per_variant * ctx.by_tier(1, 12));
    while let Some(k) = ctx.next_case() {
        if !ctx.within(0.45) {
            ctx.count("names_phase_cut_by_budget", 1);
            break;
        }
        let (cs, tpl, shape, naming) = gen_names(ctx, k);
        let an = analyse(&cs, limit);
        if an.skipped.is_none() {
            ctx.note("templates", &tpl);
            ctx.note("goal_shapes", &shape);
            ctx.note("goal_variable_namings", &naming);
        }
        if ctx.wants_sample() && an.expected.values().any(|h| *h >= 1) {
            ctx.sample(json!({"template": tpl, "case": case_json(&cs), "expected_answers": an.expected.iter().map(|(t, h)| format!("{} @height {}", t3_str(t), h)).collect::<Vec<_>>(), "answers_returned": an.raw_results}));
        }
        record(ctx, &cs, &an, &mut shrunk, limit);
    }

    // --- depth: long derivations around the documented bound
    ctx.phase("depth", ctx.by_tier(800, 20_000));
    while let Some(k) = ctx.next_case() {
        if !ctx.within(0.65) {
            ctx.count("depth_phase_cut_by_budget", 1);
            break;
        }
        let mut r = ctx.rng(k);
        let (cs, name) = gen_depth(&mut r);
        let an = analyse(&cs, depth_limit);
        if an.skipped.is_none() {
            ctx.note("depth_programs", name);
            let top = an.expected.values().copied().max().unwrap_or(0);
            ctx.max("max_height_of_an_expected_answer", top as u64);
            if top > DEMANDED_HEIGHT {
                ctx.count("depth_cases_with_expected_answers_above_demanded_height", 1);
            }
        }
        if ctx.wants_sample() && an.expected.values().any(|h| *h >= 5) {
            ctx.sample(json!({"program": name, "case": case_json(&cs), "expected_answers": an.expected.iter().map(|(t, h)| format!("{} @height {}", t3_str(t), h)).collect::<Vec<_>>(), "answers_returned": an.raw_results}));
        }
        record(ctx, &cs, &an, &mut shrunk, depth_limit);
    }

    // --- filters: separately reported class
    ctx.phase("filters", ctx.by_tier(400, 10_000));
    while let Some(k) = ctx.next_case() {
        if !ctx.within(0.72) {
            ctx.count("filters_phase_cut_by_budget", 1);
            break;
        }
        let mut r = ctx.rng(k);
        let cs = gen_filters(&mut r);
        let an = analyse(&cs, limit);
        if ctx.wants_sample() && !an.expected.is_empty() {
            ctx.sample(json!({"case": case_json(&cs), "expected_answers": an.expected.keys().map(t3_str).collect::<Vec<_>>(), "answers_returned": an.raw_results}));
        }
        record(ctx, &cs, &an, &mut shrunk, limit);
    }

    // --- random programs
    ctx.phase("random", ctx.by_tier(10_000, 400_000));
    while let Some(k) = ctx.next_case() {
        let mut r = ctx.rng(k);
        let cs = gen_random(&mut r, thorough);
        let an = analyse(&cs, limit);
        if k % 3 == 0 && an.skipped.is_none() {
            // the same program with facts and rules in another order: the answer set must not move
            let mut o = ctx.rng_labeled("order", k);
            let mut cs2 = cs.clone();
            o.shuffle(&mut cs2.facts);
            o.shuffle(&mut cs2.rules);
            let an2 = analyse(&cs2, limit);
            ctx.count("programs_also_run_with_shuffled_fact_and_rule_order", 1);
            if an2.skipped.is_none() && an.set_drawn != an2.set_drawn {
                // experiment: with goal variables that cannot clash, do the two orders agree?
                let cause = if an.set_renamed == an2.set_renamed { an.name_cause } else { "independent_of_goal_variable_names" };
                let show = |x: &Option<BTreeSet<T3>>| x.as_ref().map(|s| s.iter().map(t3_str).collect::<Vec<_>>());
                ctx.violation(
                    json!({"kind": "answers_depend_on_fact_or_rule_order", "cause": cause}),
                    json!({"case": case_json(&cs), "reordered": case_json(&cs2), "answers": show(&an.set_drawn), "answers_reordered": show(&an2.set_drawn), "with_renamed_goal_variables_both_orders_agree": an.set_renamed == an2.set_renamed}),
                );
            }
            record(ctx, &cs2, &an2, &mut shrunk, limit);
        }
        if ctx.wants_sample() && an.expected.values().any(|h| *h >= 1) {
            ctx.sample(json!({"case": case_json(&cs), "expected_answers": an.expected.iter().map(|(t, h)| format!("{} @height {}", t3_str(t), h)).collect::<Vec<_>>(), "answers_returned": an.raw_results}));
        }
        record(ctx, &cs, &an, &mut shrunk, limit);
    }
}

fn main() {
    let mut spec = Spec::new("C18", "exploration", RULE);
    spec.assumptions = &[
        "positive safe rules only (every head/filter variable occurs in a premise, at least one premise, no negation, no quoted triples)",
        "completeness is demanded for model facts of minimal derivation height <= 8 only (engine bound MAX_DEPTH = 10, two levels of margin for how depth is counted); deeper entailed answers that are not returned are counted, not reported",
        "answers are read as the repository's example does: resolve_term on the binding of each goal variable, then the goal is instantiated; duplicates among the answers are allowed and counted",
        "cases whose predicted depth-bounded search exceeds a fixed number of unification steps are skipped (counter skipped.predicted_search_too_large); the predictor is a workload filter, not part of the oracle",
        "rules with filters form a separate class (phase filters): the oracle honours the filters on canonical integer literals",
        "constants are plain words (n0, p, 7); terms are compared as decoded strings",
    ];
    spec.quick_budget_s = 40;
    spec.thorough_budget_s = 600;
    kvcore::run(spec, run);
}
