//! C08 — Hybrid probability results never certify a wrong decision.
//!
//! Events: the `HybridProbabilityResult` returned by `evaluate_hybrid_with_clock` (and, end to
//! end, by `Reasoner::infer_new_facts_with_hybrid`), the `TopKEvaluation` of `evaluate_topk`,
//! the WMC of the diagram returned by `compile_lineage_to_sdd_with_clock`.
//! Fault hook: the injectable `HybridClock`.  A dry run with a frozen clock counts the clock
//! readings N of an evaluation; then the clock jumps past every deadline at reading n for
//! every n in 0..N (two jump shapes, see `Mode`), plus a ticking clock with budgets a/b ticks.
//! Oracle: the monitor keeps its own copy of the formula (never the engine's DAG), enumerates
//! all possible worlds (independent seeds: true/false; exclusive group: exactly one member)
//! as bitsets and sums exact integer weights (probabilities are n/16, so every product and
//! sum is exact in f64 and `>= threshold` needs no tolerance).

use datalog::reasoning::Reasoner;
use kvcore::mdatalog::{stratified_model, Fact};
use kvcore::{guard, hash_str, json, panic_site, Ctx, Rng, Spec, Value};
use shared::hybrid::{
    compile_lineage_to_sdd_with_clock, evaluate_hybrid_with_clock, evaluate_topk, AlertDecision, HybridClock, HybridConfig, HybridProbabilityResult, HybridReason, LineageId, LineageNode, LineageStore, SeedId, SeedSnapshot,
    ThresholdPolicyKind,
};
use shared::rule::Rule;
use shared::seed_spec::{ExclusiveChoice, SeedSpec};
use shared::terms::{Term, TriplePattern};
use shared::triple::Triple;
use std::collections::{BTreeMap, BTreeSet, HashMap};
use std::sync::atomic::{AtomicU64, Ordering};
use std::sync::{Arc, Mutex};
use std::time::{Duration, Instant};

const RULE: &str = "lineage formulas over <=12 seeds (families: DNF with subsumed/duplicate clauses, AND-of-ORs, alternating ladders, random shared DAGs, with NOT and constants; exhaustive: all 168 monotone functions of 4 seeds, all 256 functions of 3 seeds) x seed models (independent, exclusive groups summing to 1, probability 0 and 1, sparse ids, a seed missing from the snapshot) x valid HybridConfigs (k_initial 1..8, k_max, growth, thresholds at/just below/just above the true probability and 0/1, bands, gain floors, node budgets from 2) x clock faults (deadline expiry injected at every clock reading counted in a dry run). Non-trivial = a (formula, seeds, config) triple whose root is not a constant function and on which at least one injected expiry changed the outcome w.r.t. the un-faulted run (the fault fired inside the evaluation); for the end-to-end phase: a program that derived at least one uncertain fact (0 < P < 1). Distinct by hash of (seeds, formula, config).";

// ---------------------------------------------------------------------------------------
// fault clock

const FAR: Duration = Duration::from_secs(3600);

#[derive(Clone, Copy, Debug, PartialEq)]
enum Mode {
    /// time never advances
    Frozen,
    /// readings 0..n return the start time, every later one start + 1h (top-k deadline gone,
    /// a deadline computed after the jump is still in the future)
    Jump(u64),
    /// from reading n on every reading is 1h later than the previous one: every deadline,
    /// also one computed after the jump, is gone at the next reading
    JumpEach(u64),
    /// every reading advances the clock by the given number of nanoseconds
    Tick(u64),
}

struct FaultClock {
    base: Instant,
    reads: AtomicU64,
    mode: Mode,
}

impl FaultClock {
    fn new(mode: Mode) -> Self {
        FaultClock { base: Instant::now(), reads: AtomicU64::new(0), mode }
    }
    fn readings(&self) -> u64 {
        self.reads.load(Ordering::Relaxed)
    }
}

impl HybridClock for FaultClock {
    fn now(&self) -> Instant {
        let i = self.reads.fetch_add(1, Ordering::Relaxed);
        match self.mode {
            Mode::Frozen => self.base,
            Mode::Jump(n) => {
                if i < n {
                    self.base
                } else {
                    self.base + FAR
                }
            }
            Mode::JumpEach(n) => {
                if i < n {
                    self.base
                } else {
                    self.base + FAR * ((i - n + 1).min(200_000) as u32)
                }
            }
            Mode::Tick(ns) => self.base + Duration::from_nanos(ns.saturating_mul(i)),
        }
    }
}

// ---------------------------------------------------------------------------------------
// seeds and possible worlds (the oracle side)

#[derive(Clone, Debug)]
struct SeedDef {
    raw: u32,
    /// numerator over 16 (dyadic seed sets)
    num: u32,
    prob: f64,
    group: Option<u32>,
    /// not part of the snapshot handed to the engine
    missing: bool,
}

#[derive(Clone, Debug)]
struct SeedSet {
    defs: Vec<SeedDef>,
    dyadic: bool,
}

struct Worlds {
    words: usize,
    w_int: Vec<u64>,
    w_f: Vec<f64>,
    shift: u32,
    /// per seed: bitset of the worlds in which it is true
    lit: Vec<Vec<u64>>,
    dyadic: bool,
}

/// `force`: probability numerator forced on missing seeds (0 or 16) — the truth of a formula
/// that mentions a seed the engine cannot see is only known as a range.
fn worlds(seeds: &SeedSet, force_missing_true: bool) -> Worlds {
    // choice variables: one per independent seed, one per group
    let mut groups: BTreeMap<u32, Vec<usize>> = BTreeMap::new();
    let mut choices: Vec<Vec<usize>> = vec![]; // for a group: members; for an independent seed: [i]
    let mut is_group: Vec<bool> = vec![];
    for (i, d) in seeds.defs.iter().enumerate() {
        match d.group {
            Some(g) => groups.entry(g).or_default().push(i),
            None => {
                choices.push(vec![i]);
                is_group.push(false);
            }
        }
    }
    for (_, m) in groups {
        choices.push(m);
        is_group.push(true);
    }
    let radix: Vec<usize> = choices.iter().zip(&is_group).map(|(c, g)| if *g { c.len() } else { 2 }).collect();
    let n: usize = radix.iter().product();
    let words = (n + 63) / 64;
    let mut w = Worlds { words, w_int: Vec::with_capacity(n), w_f: Vec::with_capacity(n), shift: 4 * choices.len() as u32, lit: vec![vec![0u64; words]; seeds.defs.len()], dyadic: seeds.dyadic };
    let p_of = |d: &SeedDef| -> (u64, f64) {
        if d.missing {
            if force_missing_true {
                (16, 1.0)
            } else {
                (0, 0.0)
            }
        } else {
            (d.num as u64, d.prob)
        }
    };
    for x in 0..n {
        let mut rest = x;
        let mut wi: u64 = 1;
        let mut wf: f64 = 1.0;
        for (ci, c) in choices.iter().enumerate() {
            let v = rest % radix[ci];
            rest /= radix[ci];
            if is_group[ci] {
                let s = c[v];
                let (pi, pf) = p_of(&seeds.defs[s]);
                wi *= pi;
                wf *= pf;
                w.lit[s][x / 64] |= 1u64 << (x % 64);
            } else {
                let s = c[0];
                let (pi, pf) = p_of(&seeds.defs[s]);
                if v == 1 {
                    wi *= pi;
                    wf *= pf;
                    w.lit[s][x / 64] |= 1u64 << (x % 64);
                } else {
                    wi *= 16 - pi;
                    wf *= 1.0 - pf;
                }
            }
        }
        w.w_int.push(wi);
        w.w_f.push(wf);
    }
    w
}

impl Worlds {
    fn n(&self) -> usize {
        self.w_int.len()
    }
    fn mass(&self, bits: &[u64]) -> f64 {
        if self.dyadic {
            let mut s: u64 = 0;
            for x in 0..self.n() {
                if bits[x / 64] >> (x % 64) & 1 == 1 {
                    s += self.w_int[x];
                }
            }
            // s < 2^48 and the denominator is a power of two: exact
            s as f64 / (1u64 << self.shift) as f64
        } else {
            let mut s = 0.0;
            for x in 0..self.n() {
                if bits[x / 64] >> (x % 64) & 1 == 1 {
                    s += self.w_f[x];
                }
            }
            s
        }
    }
    fn full(&self) -> Vec<u64> {
        let mut v = vec![0u64; self.words];
        for x in 0..self.n() {
            v[x / 64] |= 1u64 << (x % 64);
        }
        v
    }
    fn holds(&self, seed: usize, world: usize) -> bool {
        self.lit[seed][world / 64] >> (world % 64) & 1 == 1
    }
}

// ---------------------------------------------------------------------------------------
// the monitor's own formula representation (a DAG: children have smaller indices)

#[derive(Clone, Debug, PartialEq)]
enum Node {
    Lit(usize),
    And(Vec<usize>),
    Or(Vec<usize>),
    Not(usize),
    True,
    False,
}

#[derive(Clone, Debug)]
struct Formula {
    nodes: Vec<Node>,
    root: usize,
}

impl Formula {
    fn reachable(&self) -> Vec<bool> {
        let mut r = vec![false; self.nodes.len()];
        let mut st = vec![self.root];
        while let Some(i) = st.pop() {
            if r[i] {
                continue;
            }
            r[i] = true;
            match &self.nodes[i] {
                Node::And(c) | Node::Or(c) => st.extend(c.iter().copied()),
                Node::Not(c) => st.push(*c),
                _ => {}
            }
        }
        r
    }
    fn bits(&self, w: &Worlds) -> Vec<u64> {
        let reach = self.reachable();
        let full = w.full();
        let mut val: Vec<Vec<u64>> = Vec::with_capacity(self.nodes.len());
        for (i, nd) in self.nodes.iter().enumerate() {
            if !reach[i] {
                val.push(vec![]);
                continue;
            }
            let v = match nd {
                Node::Lit(s) => w.lit[*s].clone(),
                Node::True => full.clone(),
                Node::False => vec![0u64; w.words],
                Node::Not(c) => val[*c].iter().zip(&full).map(|(a, f)| !a & f).collect(),
                Node::And(c) => {
                    let mut acc = full.clone();
                    for ch in c {
                        for (a, b) in acc.iter_mut().zip(&val[*ch]) {
                            *a &= *b;
                        }
                    }
                    acc
                }
                Node::Or(c) => {
                    let mut acc = vec![0u64; w.words];
                    for ch in c {
                        for (a, b) in acc.iter_mut().zip(&val[*ch]) {
                            *a |= *b;
                        }
                    }
                    acc
                }
            };
            val.push(v);
        }
        val.swap_remove(self.root)
    }
    fn show(&self, i: usize, seeds: &SeedSet) -> String {
        match &self.nodes[i] {
            Node::Lit(s) => format!("s{}", seeds.defs[*s].raw),
            Node::True => "T".into(),
            Node::False => "F".into(),
            Node::Not(c) => format!("!{}", self.show(*c, seeds)),
            Node::And(c) => format!("({})", c.iter().map(|x| self.show(*x, seeds)).collect::<Vec<_>>().join(" & ")),
            Node::Or(c) => format!("({})", c.iter().map(|x| self.show(*x, seeds)).collect::<Vec<_>>().join(" | ")),
        }
    }
    fn has_not(&self) -> bool {
        let r = self.reachable();
        self.nodes.iter().enumerate().any(|(i, n)| r[i] && matches!(n, Node::Not(_)))
    }
    fn lits(&self) -> BTreeSet<usize> {
        let r = self.reachable();
        self.nodes.iter().enumerate().filter_map(|(i, n)| if let (true, Node::Lit(s)) = (r[i], n) { Some(*s) } else { None }).collect()
    }
    fn uses_group(&self, seeds: &SeedSet) -> bool {
        self.lits().iter().any(|s| seeds.defs[*s].group.is_some())
    }
    fn uses_missing(&self, seeds: &SeedSet) -> bool {
        self.lits().iter().any(|s| seeds.defs[*s].missing)
    }
    fn size(&self) -> usize {
        self.reachable().iter().filter(|x| **x).count()
    }
    /// every reference to node i is redirected to node c (c < i)
    fn redirect(&self, i: usize, c: usize) -> Formula {
        let mut f = self.clone();
        for n in f.nodes.iter_mut() {
            match n {
                Node::And(ch) | Node::Or(ch) => {
                    for x in ch.iter_mut() {
                        if *x == i {
                            *x = c;
                        }
                    }
                }
                Node::Not(x) => {
                    if *x == i {
                        *x = c;
                    }
                }
                _ => {}
            }
        }
        if f.root == i {
            f.root = c;
        }
        f
    }
    /// structurally smaller variants, for witness minimisation
    fn smaller(&self) -> Vec<Formula> {
        let reach = self.reachable();
        let mut out = vec![];
        for i in (0..self.nodes.len()).rev() {
            if !reach[i] {
                continue;
            }
            match &self.nodes[i] {
                Node::And(ch) | Node::Or(ch) => {
                    for c in ch {
                        out.push(self.redirect(i, *c));
                    }
                    if ch.len() >= 2 {
                        for j in 0..ch.len() {
                            let mut f = self.clone();
                            if let Node::And(x) | Node::Or(x) = &mut f.nodes[i] {
                                x.remove(j);
                            }
                            out.push(f);
                        }
                    }
                }
                Node::Not(c) => {
                    if let Node::Not(d) = &self.nodes[*c] {
                        out.push(self.redirect(i, *d)); // !!x -> x keeps the meaning
                    }
                    out.push(self.redirect(i, *c));
                }
                _ => {}
            }
        }
        out
    }
}

struct Truth {
    lo: f64,
    hi: f64,
    tol: f64,
    constant: bool,
}

fn truth_of(f: &Formula, seeds: &SeedSet) -> Truth {
    let w0 = worlds(seeds, false);
    let b0 = f.bits(&w0);
    let t0 = w0.mass(&b0);
    let ones: u32 = b0.iter().map(|x| x.count_ones()).sum();
    let constant = ones == 0 || ones as usize == w0.n();
    let tol = if seeds.dyadic { 0.0 } else { 1e-9 };
    if f.uses_missing(seeds) {
        let w1 = worlds(seeds, true);
        let t1 = w1.mass(&f.bits(&w1));
        Truth { lo: t0.min(t1), hi: t0.max(t1), tol, constant }
    } else {
        Truth { lo: t0, hi: t0, tol, constant }
    }
}

// ---------------------------------------------------------------------------------------
// generators

fn gen_seeds(r: &mut Rng, n: usize, groups: bool, dyadic: bool, allow_missing: bool) -> SeedSet {
    let base = *r.pick(&[0u32, 0, 1, 5, 17]);
    let stride = *r.pick(&[1u32, 1, 1, 2, 3]);
    let mut raws: Vec<u32> = (0..n as u32).map(|i| base + i * stride).collect();
    if r.chance(1, 3) {
        r.shuffle(&mut raws);
    }
    let mut defs: Vec<SeedDef> = raws
        .iter()
        .map(|&raw| {
            let num = match r.below(14) {
                0 => 0,
                1 => 16,
                2 | 3 => 8,
                4 => 1,
                5 => 15,
                _ => r.range(1, 15) as u32,
            };
            let prob = if dyadic { num as f64 / 16.0 } else { r.f64() };
            SeedDef { raw, num, prob, group: None, missing: false }
        })
        .collect();
    if groups && n >= 2 {
        let mut free: Vec<usize> = (0..n).collect();
        r.shuffle(&mut free);
        let ng = r.range(1, 3);
        let gid_base = *r.pick(&[0u32, 1, 7, 100]);
        for g in 0..ng {
            if free.len() < 2 {
                break;
            }
            // now and then a group with a single member (which then has probability 1)
            let m = if r.chance(1, 10) { 1 } else { r.range(2, 4.min(free.len())) };
            let members: Vec<usize> = free.drain(..m).collect();
            // numerators: a composition of 16 into m parts (zeros allowed now and then)
            let mut cuts: Vec<u32> = (0..m - 1).map(|_| { let lo = if r.chance(1, 6) { 0 } else { 1 }; r.range(lo, 15) as u32 }).collect();
            cuts.sort();
            let mut parts = vec![];
            let mut prev = 0;
            for c in &cuts {
                parts.push(c - prev);
                prev = *c;
            }
            parts.push(16 - prev);
            let gid = gid_base + g as u32;
            let mut rest = 1.0f64;
            for (j, &s) in members.iter().enumerate() {
                defs[s].group = Some(gid);
                defs[s].num = parts[j];
                defs[s].prob = if dyadic {
                    parts[j] as f64 / 16.0
                } else if j + 1 == members.len() {
                    rest.max(0.0)
                } else {
                    let p = r.f64() * rest;
                    rest -= p;
                    p
                };
            }
            if r.chance(2, 3) {
                // some seeds stay independent
                if free.len() > 2 && r.coin() {
                    break;
                }
            }
        }
    }
    if allow_missing {
        let ind: Vec<usize> = (0..n).filter(|i| defs[*i].group.is_none()).collect();
        if !ind.is_empty() {
            let i = *r.pick(&ind);
            defs[i].missing = true;
        }
    }
    SeedSet { defs, dyadic }
}

fn lit_nodes(n: usize) -> Vec<Node> {
    (0..n).map(Node::Lit).collect()
}

fn subset(r: &mut Rng, n: usize, lo: usize, hi: usize) -> Vec<usize> {
    let mut v: Vec<usize> = (0..n).collect();
    r.shuffle(&mut v);
    let k = r.range(lo.min(n), hi.min(n)).max(1);
    v.truncate(k);
    v.sort();
    v
}

/// OR of ANDs of literals with deliberately subsumed, subsuming and duplicate clauses
fn gen_dnf(r: &mut Rng, n: usize) -> Formula {
    let mut nodes = lit_nodes(n);
    let m = r.range(1, 10);
    let mut clauses: Vec<Vec<usize>> = vec![];
    for _ in 0..m {
        let c = if !clauses.is_empty() && r.chance(2, 5) {
            let mut c = r.pick(&clauses).clone();
            match r.below(3) {
                0 => {
                    // superset of an earlier clause (subsumed proof)
                    c.push(r.below(n));
                    c.sort();
                    c.dedup();
                }
                1 => {
                    // subset of an earlier clause (evicts it from the retained proofs)
                    if c.len() > 1 {
                        let j = r.below(c.len());
                        c.remove(j);
                    }
                }
                _ => {} // duplicate
            }
            c
        } else {
            subset(r, n, 1, 4)
        };
        clauses.push(c);
    }
    let mut tops = vec![];
    for c in &clauses {
        if c.len() == 1 && r.coin() {
            tops.push(c[0]);
        } else {
            nodes.push(Node::And(c.clone()));
            tops.push(nodes.len() - 1);
        }
    }
    nodes.push(Node::Or(tops));
    let root = nodes.len() - 1;
    Formula { nodes, root }
}

/// AND of ORs (number of proofs multiplies), optionally OR-ed with a short clause
fn gen_cnf(r: &mut Rng, n: usize) -> Formula {
    let mut nodes = lit_nodes(n);
    let g = r.range(2, 4);
    let mut ors = vec![];
    for _ in 0..g {
        let c = subset(r, n, 1, 3);
        nodes.push(Node::Or(c));
        ors.push(nodes.len() - 1);
    }
    if r.chance(1, 3) {
        ors.push(r.below(n));
    }
    nodes.push(Node::And(ors));
    let mut root = nodes.len() - 1;
    if r.chance(1, 2) {
        let c = subset(r, n, 1, 2);
        nodes.push(Node::And(c));
        let extra = nodes.len() - 1;
        nodes.push(Node::Or(vec![root, extra]));
        root = nodes.len() - 1;
    }
    Formula { nodes, root }
}

/// s0 & (s1 | (s2 & (s3 | ...))) with an occasional shared sub-term
fn gen_ladder(r: &mut Rng, n: usize) -> Formula {
    let mut nodes = lit_nodes(n);
    let depth = r.range(2, n.max(2).min(9));
    let mut cur = r.below(n);
    let mut is_and = r.coin();
    let mut made = vec![];
    for _ in 0..depth {
        let mut ch = vec![cur, r.below(n)];
        if !made.is_empty() && r.chance(1, 4) {
            ch.push(*r.pick(&made));
        }
        nodes.push(if is_and { Node::And(ch) } else { Node::Or(ch) });
        cur = nodes.len() - 1;
        made.push(cur);
        is_and = !is_and;
    }
    Formula { nodes, root: cur }
}

/// random DAG with heavy sharing
fn gen_dag(r: &mut Rng, n: usize, allow_not: bool, allow_const: bool) -> Formula {
    let mut nodes = lit_nodes(n);
    if allow_const {
        nodes.push(Node::True);
        nodes.push(Node::False);
    }
    let steps = r.range(3, 11);
    for _ in 0..steps {
        let len = nodes.len();
        let pick = |r: &mut Rng| -> usize {
            if r.coin() && len > 4 {
                len - 1 - r.below(4)
            } else {
                r.below(len)
            }
        };
        if allow_not && r.chance(1, 5) {
            let c = pick(r);
            nodes.push(Node::Not(c));
            continue;
        }
        let ar = *r.pick(&[2usize, 2, 2, 3, 3, 4]);
        let ch: Vec<usize> = (0..ar).map(|_| pick(r)).collect();
        nodes.push(if r.chance(9, 20) { Node::And(ch) } else { Node::Or(ch) });
    }
    let mut root = nodes.len() - 1;
    if r.chance(1, 2) && nodes.len() > n + 3 {
        let a = nodes.len() - 2;
        let b = nodes.len() - 3;
        nodes.push(if r.chance(1, 3) { Node::And(vec![root, a]) } else { Node::Or(vec![root, a, b]) });
        root = nodes.len() - 1;
    }
    Formula { nodes, root }
}

/// Non-monotone formulas with operands that are constant only SEMANTICALLY (the lineage
/// store cannot simplify them, the decision diagram can): a contradiction such as
/// x AND NOT(x OR y) or a tautology such as x OR NOT(x AND y), created before or after its
/// siblings below an OR / AND node, optionally nested further.
fn gen_hidden_constants(r: &mut Rng, n: usize) -> Formula {
    let mut nodes = lit_nodes(n);
    let lit = |r: &mut Rng| r.below(n);
    let hidden = |r: &mut Rng, nodes: &mut Vec<Node>, tautology: bool| -> usize {
        let (x, y) = (lit(r), lit(r));
        match (tautology, r.below(3)) {
            (false, 0) => {
                nodes.push(Node::Or(vec![x, y]));
                let o = nodes.len() - 1;
                nodes.push(Node::Not(o));
                let no = nodes.len() - 1;
                nodes.push(Node::And(vec![x, no])); // x AND NOT(x OR y)
            }
            (false, 1) => {
                nodes.push(Node::And(vec![x, y]));
                let a = nodes.len() - 1;
                nodes.push(Node::Not(x));
                let nx = nodes.len() - 1;
                nodes.push(Node::And(vec![a, nx])); // (x AND y) AND NOT x
            }
            (false, _) => {
                nodes.push(Node::Or(vec![x, y]));
                let o = nodes.len() - 1;
                nodes.push(Node::Not(o));
                let no = nodes.len() - 1;
                nodes.push(Node::And(vec![no, y])); // NOT(x OR y) AND y
            }
            (true, 0) => {
                nodes.push(Node::And(vec![x, y]));
                let a = nodes.len() - 1;
                nodes.push(Node::Not(a));
                let na = nodes.len() - 1;
                nodes.push(Node::Or(vec![x, na])); // x OR NOT(x AND y)
            }
            (true, 1) => {
                nodes.push(Node::Or(vec![x, y]));
                let o = nodes.len() - 1;
                nodes.push(Node::Not(x));
                let nx = nodes.len() - 1;
                nodes.push(Node::Or(vec![o, nx])); // (x OR y) OR NOT x
            }
            (true, _) => {
                nodes.push(Node::And(vec![x, y]));
                let a = nodes.len() - 1;
                nodes.push(Node::Not(a));
                let na = nodes.len() - 1;
                nodes.push(Node::Or(vec![na, y])); // NOT(x AND y) OR y
            }
        }
        nodes.len() - 1
    };
    let sibling = |r: &mut Rng, nodes: &mut Vec<Node>| -> usize {
        match r.below(3) {
            0 => lit(r),
            1 => {
                nodes.push(Node::And(vec![lit(r), lit(r)]));
                nodes.len() - 1
            }
            _ => {
                nodes.push(Node::Or(vec![lit(r), lit(r)]));
                nodes.len() - 1
            }
        }
    };
    let tautology = r.coin();
    let hidden_first = r.chance(2, 3);
    let mut children: Vec<usize> = vec![];
    if hidden_first {
        children.push(hidden(r, &mut nodes, tautology));
    }
    for _ in 0..r.range(1, 2) {
        children.push(sibling(r, &mut nodes));
    }
    if !hidden_first {
        children.push(hidden(r, &mut nodes, tautology));
    }
    // the neutral constant for the parent: contradiction under OR, tautology under AND (and, less
    // often, the absorbing combination)
    let parent_or = if r.chance(4, 5) { !tautology } else { tautology };
    nodes.push(if parent_or { Node::Or(children) } else { Node::And(children) });
    let mut root = nodes.len() - 1;
    if r.chance(1, 3) {
        let other = sibling(r, &mut nodes);
        nodes.push(if r.coin() { Node::And(vec![root, other]) } else { Node::Or(vec![root, other]) });
        root = nodes.len() - 1;
    }
    Formula { nodes, root }
}

#[derive(Clone, Copy, Debug, PartialEq)]
enum Thr {
    Zero,
    One,
    At,
    JustBelow,
    JustAbove,
    Minus64th,
    Plus64th,
    Abs(f64),
}

impl Thr {
    fn name(&self) -> &'static str {
        match self {
            Thr::Zero => "0",
            Thr::One => "1",
            Thr::At => "at_truth",
            Thr::JustBelow => "one_ulp_below_truth",
            Thr::JustAbove => "one_ulp_above_truth",
            Thr::Minus64th => "truth-1/64",
            Thr::Plus64th => "truth+1/64",
            Thr::Abs(_) => "absolute",
        }
    }
    fn resolve(&self, t: &Truth) -> f64 {
        // with a tolerance (non-dyadic) "just" means 1e-6, well outside the tolerance
        let x = match self {
            Thr::Zero => 0.0,
            Thr::One => 1.0,
            Thr::At => t.lo,
            Thr::JustBelow => {
                if t.tol > 0.0 {
                    t.lo - 1e-6
                } else if t.lo > 0.0 {
                    f64::from_bits(t.lo.to_bits() - 1)
                } else {
                    0.0
                }
            }
            Thr::JustAbove => {
                if t.tol > 0.0 {
                    t.lo + 1e-6
                } else if t.lo == 0.0 {
                    f64::MIN_POSITIVE
                } else {
                    f64::from_bits(t.lo.to_bits() + 1)
                }
            }
            Thr::Minus64th => t.lo - 1.0 / 64.0,
            Thr::Plus64th => t.lo + 1.0 / 64.0,
            Thr::Abs(x) => *x,
        };
        x.clamp(0.0, 1.0)
    }
}

#[derive(Clone, Debug)]
struct Cfg {
    thr: Thr,
    policy: ThresholdPolicyKind,
    band: f64,
    floor: f64,
    k0: usize,
    kmax: usize,
    growth: usize,
    node_budget: usize,
}

impl Cfg {
    fn make(&self, t: &Truth, topk: Duration, sdd: Duration) -> HybridConfig {
        HybridConfig { threshold: self.thr.resolve(t), threshold_policy: self.policy, band_epsilon: self.band, marginal_gain_floor: self.floor, k_initial: self.k0, k_max: self.kmax, k_growth: self.growth, topk_budget: topk, sdd_budget: sdd, sdd_node_budget: self.node_budget }
    }
    fn json(&self, t: &Truth) -> Value {
        json!({"threshold": self.thr.resolve(t), "threshold_spec": self.thr.name(), "band_epsilon": self.band, "marginal_gain_floor": self.floor, "k_initial": self.k0, "k_max": self.kmax, "k_growth": self.growth, "sdd_node_budget": self.node_budget})
    }
}

fn gen_thr(r: &mut Rng) -> Thr {
    match r.weighted(&[2, 2, 5, 4, 4, 3, 3, 5]) {
        0 => Thr::Zero,
        1 => Thr::One,
        2 => Thr::At,
        3 => Thr::JustBelow,
        4 => Thr::JustAbove,
        5 => Thr::Minus64th,
        6 => Thr::Plus64th,
        _ => Thr::Abs(r.range(1, 63) as f64 / 64.0),
    }
}

fn gen_cfg(r: &mut Rng) -> Cfg {
    let k0 = *r.pick(&[1usize, 1, 1, 2, 2, 3, 4, 5, 6, 7, 8]);
    let kmax = (*r.pick(&[k0, k0, k0 + 1, 2 * k0, 4 * k0, 8, 16, 64])).max(k0);
    Cfg {
        thr: gen_thr(r),
        policy: if r.chance(1, 5) { ThresholdPolicyKind::CostRatio } else { ThresholdPolicyKind::Explicit },
        band: *r.pick(&[0.0, 1.0 / 64.0, 0.02, 0.125, 1.0]),
        floor: *r.pick(&[0.0, 1e-4, 1.0 / 64.0, 0.25, 2.0]),
        k0,
        kmax,
        growth: *r.pick(&[2usize, 2, 2, 3, 4, 10]),
        node_budget: if r.chance(2, 5) { 100_000 } else { *r.pick(&[2usize, 3, 4, 5, 6, 8, 10, 12, 16, 20, 24, 32, 48, 64, 128]) },
    }
}

// ---------------------------------------------------------------------------------------
// handing a case to the engine through its public API

struct Engine {
    store: Arc<Mutex<LineageStore>>,
    seeds: Arc<SeedSnapshot>,
    root: LineageId,
}

fn dummy_triple(raw: u32) -> Triple {
    Triple { subject: 10_000 + raw, predicate: 9_999, object: 0 }
}

fn snapshot_of(seeds: &SeedSet, include_missing: bool) -> SeedSnapshot {
    let mut specs = vec![];
    let mut groups: BTreeMap<u32, Vec<ExclusiveChoice>> = BTreeMap::new();
    for d in &seeds.defs {
        if d.missing && !include_missing {
            continue;
        }
        match d.group {
            None => specs.push(SeedSpec::Independent { triple: dummy_triple(d.raw), prob: d.prob, seed_id: d.raw }),
            Some(g) => groups.entry(g).or_default().push(ExclusiveChoice { triple: dummy_triple(d.raw), prob: d.prob, choice_id: d.raw }),
        }
    }
    for (g, choices) in groups {
        specs.push(SeedSpec::ExclusiveGroup { group_id: g, choices });
    }
    SeedSnapshot::from_seed_specs(&specs).expect("monitor generated an invalid seed specification")
}

fn build(f: &Formula, seeds: &SeedSet) -> Engine {
    let full = snapshot_of(seeds, true);
    let ids: HashMap<u32, SeedId> = full.records().map(|rec| (rec.id.get(), rec.id)).collect();
    let snap = if seeds.defs.iter().any(|d| d.missing) { snapshot_of(seeds, false) } else { full };
    let mut store = LineageStore::new();
    let reach = f.reachable();
    let mut lid: Vec<LineageId> = Vec::with_capacity(f.nodes.len());
    for (i, n) in f.nodes.iter().enumerate() {
        if !reach[i] {
            lid.push(LineageId::FALSE);
            continue;
        }
        let id = match n {
            Node::Lit(s) => store.literal(ids[&seeds.defs[*s].raw]),
            Node::True => LineageId::TRUE,
            Node::False => LineageId::FALSE,
            Node::Not(c) => store.not(lid[*c]),
            Node::And(c) => store.and(c.iter().map(|x| lid[*x])),
            Node::Or(c) => store.or(c.iter().map(|x| lid[*x])),
        };
        lid.push(id);
    }
    Engine { store: Arc::new(Mutex::new(store)), seeds: Arc::new(snap), root: lid[f.root] }
}

// ---------------------------------------------------------------------------------------
// the checks

#[derive(Default)]
struct Obs {
    evals: u64,
    counts: BTreeMap<String, u64>,
    maxima: BTreeMap<String, u64>,
    fault_changed_outcome: bool,
}

impl Obs {
    fn count(&mut self, k: String, n: u64) {
        *self.counts.entry(k).or_insert(0) += n;
    }
    fn max(&mut self, k: &str, v: u64) {
        let e = self.maxima.entry(k.to_string()).or_insert(0);
        *e = (*e).max(v);
    }
    fn flush(self, ctx: &mut Ctx) {
        ctx.add_evals(self.evals);
        for (k, v) in self.counts {
            ctx.count(&k, v);
        }
        for (k, v) in self.maxima {
            ctx.max(&k, v);
        }
    }
}

#[derive(Clone, Debug)]
struct Viol {
    kind: String,
    entry: &'static str,
    status: String,
    reason: String,
    mode: Mode,
    detail: Value,
}

fn decision_name(d: AlertDecision) -> &'static str {
    match d {
        AlertDecision::Alert => "Alert",
        AlertDecision::NoAlert => "NoAlert",
        AlertDecision::Indeterminate => "Indeterminate",
    }
}

/// What a result claims, against the true probability (a range only when a seed is missing).
fn check_result(res: &HybridProbabilityResult, t: &Truth, thr: f64) -> Option<&'static str> {
    let too_high = |x: f64| x > t.lo + t.tol; // a claimed lower bound above the smallest possible truth
    let too_low = |x: f64| x < t.hi - t.tol; // a claimed upper bound below the largest possible truth
    match res {
        HybridProbabilityResult::Exact { probability, .. } => {
            if !probability.is_finite() {
                return Some("non_finite_value");
            }
            if too_high(*probability) || too_low(*probability) {
                return Some("exact_probability_wrong");
            }
        }
        HybridProbabilityResult::Bounded { interval, .. } => {
            if !interval.lower.is_finite() || !interval.upper.is_finite() {
                return Some("non_finite_value");
            }
            if too_high(interval.lower) {
                return Some("interval_lower_above_true_probability");
            }
            if too_low(interval.upper) {
                return Some("interval_upper_below_true_probability");
            }
        }
        HybridProbabilityResult::LowerBound { lower_bound, .. } => {
            if !lower_bound.is_finite() {
                return Some("non_finite_value");
            }
            if too_high(*lower_bound) {
                return Some("lower_bound_above_true_probability");
            }
        }
        HybridProbabilityResult::NeedsExact { lower_bound, upper_bound, .. } => {
            if lower_bound.map_or(false, |l| l.is_nan()) || upper_bound.map_or(false, |u| u.is_nan()) {
                return Some("non_finite_value");
            }
            if lower_bound.map_or(false, too_high) {
                return Some("needs_exact_lower_above_true_probability");
            }
            if upper_bound.map_or(false, too_low) {
                return Some("needs_exact_upper_below_true_probability");
            }
        }
        HybridProbabilityResult::UnsafeApproximation { .. } => return Some("unsafe_approximation_returned"),
    }
    match res.decision() {
        AlertDecision::Alert => {
            if t.lo < thr - t.tol {
                return Some("alert_but_true_probability_below_threshold");
            }
        }
        AlertDecision::NoAlert => {
            if t.hi >= thr + t.tol && !(t.tol > 0.0 && (t.hi - thr).abs() <= t.tol) {
                return Some("no_alert_but_true_probability_at_or_above_threshold");
            }
        }
        AlertDecision::Indeterminate => {}
    }
    None
}

fn outcome_key(res: &HybridProbabilityResult) -> String {
    format!("{}/{}/{}", res.status(), res.reason().as_str(), decision_name(res.decision()))
}

fn points(n: u64, cap: u64) -> Vec<u64> {
    if n <= cap {
        return (0..n).collect();
    }
    let head = cap / 2;
    let mut v: Vec<u64> = (0..head).collect();
    let rest = cap - head;
    for j in 0..rest {
        v.push(head + (n - head) * j / rest);
    }
    v.dedup();
    v
}

fn case_json(f: &Formula, seeds: &SeedSet, t: &Truth) -> Value {
    json!({
        "formula": f.show(f.root, seeds),
        "seeds": seeds.defs.iter().map(|d| json!({"id": d.raw, "p": d.prob, "group": d.group, "missing_from_snapshot": d.missing})).collect::<Vec<_>>(),
        "true_probability": if t.lo == t.hi { json!(t.lo) } else { json!([t.lo, t.hi]) },
    })
}

const TOPK_BUDGET: Duration = Duration::from_millis(25);
const SDD_BUDGET: Duration = Duration::from_millis(250);

struct Limits {
    clock_points: u64,
    ticks: usize,
}

/// Run `evaluate_hybrid_with_clock` on one (formula, seeds, config): un-faulted, then with the
/// deadline expiring at every clock reading.  Returns the first violation.
fn examine_hybrid(f: &Formula, seeds: &SeedSet, t: &Truth, cfg: &Cfg, lim: &Limits, tick_rng: &mut Rng, obs: &mut Obs) -> Option<Viol> {
    let e = build(f, seeds);
    let hc = cfg.make(t, TOPK_BUDGET, SDD_BUDGET);
    let thr = hc.threshold;
    let run = |mode: Mode, hc: &HybridConfig, obs: &mut Obs| -> Result<(HybridProbabilityResult, u64), Viol> {
        let clock = FaultClock::new(mode);
        obs.evals += 1;
        match guard(|| evaluate_hybrid_with_clock(&e.store, &e.seeds, e.root, hc, &clock)) {
            Ok(r) => Ok((r, clock.readings())),
            Err(p) => Err(Viol { kind: "panic".into(), entry: "evaluate_hybrid_with_clock", status: "panic".into(), reason: panic_site(&p), mode, detail: json!({"panic": p}) }),
        }
    };
    let viol = |kind: &str, r: &HybridProbabilityResult, mode: Mode, n: u64| Viol {
        kind: kind.to_string(),
        entry: "evaluate_hybrid_with_clock",
        status: r.status().to_string(),
        reason: r.reason().as_str().to_string(),
        mode,
        detail: json!({"result": format!("{:?}", r), "clock": format!("{:?}", mode), "clock_readings_of_this_run": n}),
    };
    let (r0, n0) = match run(Mode::Frozen, &hc, obs) {
        Ok(x) => x,
        Err(v) => return Some(v),
    };
    obs.count(format!("hybrid.unfaulted.{}", outcome_key(&r0)), 1);
    obs.max("clock_readings_in_one_evaluation", n0);
    if let Some(k) = check_result(&r0, t, thr) {
        return Some(viol(k, &r0, Mode::Frozen, n0));
    }
    if f.uses_missing(seeds) && !matches!(r0, HybridProbabilityResult::NeedsExact { .. }) {
        obs.count("hybrid.missing_seed_yet_sound_definite_answer".into(), 1);
    }
    let k0 = outcome_key(&r0);
    let pts = points(n0, lim.clock_points);
    if (pts.len() as u64) < n0 {
        obs.count("hybrid.evaluations_with_sampled_clock_points".into(), 1);
    } else {
        obs.count("hybrid.evaluations_with_every_clock_point_injected".into(), 1);
    }
    for &n in &pts {
        for mode in [Mode::Jump(n), Mode::JumpEach(n)] {
            let (r, nn) = match run(mode, &hc, obs) {
                Ok(x) => x,
                Err(v) => return Some(v),
            };
            obs.count("hybrid.deadline_expiries_injected".into(), 1);
            let kk = outcome_key(&r);
            if kk != k0 {
                obs.fault_changed_outcome = true;
                obs.count(format!("hybrid.faulted.{}", kk), 1);
            } else {
                obs.count("hybrid.faulted.same_outcome_as_unfaulted".into(), 1);
            }
            if let Some(k) = check_result(&r, t, thr) {
                return Some(viol(k, &r, mode, nn));
            }
        }
    }
    // ticking clock: budgets of a and b readings
    for _ in 0..lim.ticks {
        let a = tick_rng.range(1, n0 as usize + 1) as u64;
        let b = tick_rng.range(1, n0 as usize + 1) as u64;
        let hc2 = cfg.make(t, Duration::from_nanos(1000 * a), Duration::from_nanos(1000 * b));
        let mode = Mode::Tick(1000);
        let (r, nn) = match run(mode, &hc2, obs) {
            Ok(x) => x,
            Err(v) => return Some(v),
        };
        obs.count("hybrid.ticking_clock_runs".into(), 1);
        if outcome_key(&r) != k0 {
            obs.fault_changed_outcome = true;
            obs.count(format!("hybrid.ticking.{}", outcome_key(&r)), 1);
        }
        if let Some(k) = check_result(&r, t, thr) {
            let mut v = viol(k, &r, mode, nn);
            v.detail["topk_budget_ticks"] = json!(a);
            v.detail["sdd_budget_ticks"] = json!(b);
            return Some(v);
        }
    }
    None
}

fn reason_str(r: &HybridReason) -> &'static str {
    r.as_str()
}

/// `compile_lineage_to_sdd_with_clock`: a returned diagram must have exactly the true WMC,
/// whatever the node budget and wherever the deadline expires.
fn examine_compile(f: &Formula, seeds: &SeedSet, t: &Truth, node_budget: usize, lim: &Limits, obs: &mut Obs) -> Option<Viol> {
    let e = build(f, seeds);
    let store = e.store.lock().unwrap();
    let run = |mode: Mode, obs: &mut Obs| -> Result<(Result<f64, HybridReason>, u64), Viol> {
        let clock = FaultClock::new(mode);
        obs.evals += 1;
        match guard(|| compile_lineage_to_sdd_with_clock(&store, &e.seeds, e.root, SDD_BUDGET, node_budget, &clock).map(|c| c.manager.wmc(c.root))) {
            Ok(r) => Ok((r, clock.readings())),
            Err(p) => Err(Viol { kind: "panic".into(), entry: "compile_lineage_to_sdd_with_clock", status: "panic".into(), reason: panic_site(&p), mode, detail: json!({"panic": p, "node_budget": node_budget}) }),
        }
    };
    let check = |r: &Result<f64, HybridReason>, mode: Mode| -> Option<Viol> {
        if let Ok(p) = r {
            if !(p.is_finite() && (p - t.lo).abs() <= t.tol && (p - t.hi).abs() <= t.tol) {
                return Some(Viol { kind: "compiled_diagram_has_wrong_probability".into(), entry: "compile_lineage_to_sdd_with_clock", status: "Ok".into(), reason: "wmc".into(), mode, detail: json!({"wmc": p, "clock": format!("{:?}", mode), "node_budget": node_budget}) });
            }
        }
        None
    };
    let (r0, n0) = match run(Mode::Frozen, obs) {
        Ok(x) => x,
        Err(v) => return Some(v),
    };
    obs.count(format!("compile.unfaulted.{}", match &r0 { Ok(_) => "ok", Err(r) => reason_str(r) }), 1);
    if let Some(v) = check(&r0, Mode::Frozen) {
        return Some(v);
    }
    for n in points(n0, lim.clock_points) {
        let mode = Mode::JumpEach(n);
        let (r, _) = match run(mode, obs) {
            Ok(x) => x,
            Err(v) => return Some(v),
        };
        obs.count("compile.deadline_expiries_injected".into(), 1);
        obs.count(format!("compile.faulted.{}", match &r { Ok(_) => "ok", Err(r) => reason_str(r) }), 1);
        if r.is_ok() != r0.is_ok() {
            obs.fault_changed_outcome = true;
        }
        if let Some(v) = check(&r, mode) {
            return Some(v);
        }
    }
    None
}

/// `evaluate_topk` (system clock, budget of one hour: wall-clock cannot matter)
fn examine_topk(f: &Formula, seeds: &SeedSet, t: &Truth, k: usize, node_budget: usize, obs: &mut Obs) -> Option<Viol> {
    let e = build(f, seeds);
    let store = e.store.lock().unwrap();
    obs.evals += 1;
    let mk = |kind: &str, status: &str, reason: &str, detail: Value| Viol { kind: kind.into(), entry: "evaluate_topk", status: status.into(), reason: reason.into(), mode: Mode::Frozen, detail };
    match guard(|| evaluate_topk(&store, &e.seeds, e.root, k, FAR, node_budget)) {
        Err(p) => Some(mk("panic", "panic", &panic_site(&p), json!({"panic": p, "k": k, "node_budget": node_budget}))),
        Ok(Err(r)) => {
            obs.count(format!("topk.err.{}", r.as_str()), 1);
            None
        }
        Ok(Ok(ev)) => {
            obs.count(format!("topk.ok.{}", if ev.frontier_exhausted { "frontier_exhausted" } else { "cap_hit" }), 1);
            let d = json!({"k": k, "node_budget": node_budget, "evaluation": format!("{:?}", ev)});
            if !(ev.lower_bound.is_finite() && ev.interval.upper.is_finite()) {
                return Some(mk("non_finite_value", "Ok", "topk", d));
            }
            if ev.lower_bound > t.lo + t.tol || ev.interval.lower > t.lo + t.tol {
                return Some(mk("lower_bound_above_true_probability", "Ok", "topk", d));
            }
            if ev.interval.upper < t.hi - t.tol {
                return Some(mk("interval_upper_below_true_probability", "Ok", "topk", d));
            }
            if ev.frontier_exhausted && (ev.lower_bound - t.hi).abs() > t.tol {
                return Some(mk("exhausted_frontier_but_lower_bound_is_not_the_probability", "Ok", "topk", d));
            }
            if ev.k_used > k {
                return Some(mk("more_proofs_used_than_k", "Ok", "topk", d));
            }
            None
        }
    }
}

#[derive(Clone, Copy, Debug, PartialEq)]
enum Entry {
    Hybrid,
    Compile(usize),
    TopK(usize, usize),
}

fn examine(entry: Entry, f: &Formula, seeds: &SeedSet, cfg: &Cfg, lim: &Limits, tick_rng: &mut Rng, obs: &mut Obs) -> (Truth, Option<Viol>) {
    let t = truth_of(f, seeds);
    let v = match entry {
        Entry::Hybrid => examine_hybrid(f, seeds, &t, cfg, lim, tick_rng, obs),
        Entry::Compile(nb) => examine_compile(f, seeds, &t, nb, lim, obs),
        Entry::TopK(k, nb) => examine_topk(f, seeds, &t, k, nb, obs),
    };
    (t, v)
}

/// Greedy structural minimisation of a violating formula (same entry, same config whose
/// threshold is re-derived from the smaller formula's own true probability, same kind).
fn shrink(entry: Entry, f: &Formula, seeds: &SeedSet, cfg: &Cfg, lim: &Limits, v: Viol) -> (Formula, Viol, u64) {
    let mut cur = f.clone();
    let mut best = v;
    let mut tries = 0u64;
    'outer: loop {
        for cand in cur.smaller() {
            if tries >= 400 {
                break 'outer;
            }
            tries += 1;
            let mut o = Obs::default();
            let mut tr = Rng::new(7);
            let lim2 = Limits { clock_points: lim.clock_points, ticks: if matches!(best.mode, Mode::Tick(_)) { 8 } else { 0 } };
            if let (_, Some(v2)) = examine(entry, &cand, seeds, cfg, &lim2, &mut tr, &mut o) {
                if v2.kind == best.kind {
                    cur = cand;
                    best = v2;
                    continue 'outer;
                }
            }
        }
        break;
    }
    (cur, best, tries)
}

/// (contains NOT, mentions an exclusive-group seed, mentions a missing seed) of an engine DAG
fn store_features(store: &LineageStore, root: LineageId, seed_info: &dyn Fn(u32) -> (bool, bool)) -> (bool, bool, bool) {
    let mut seen = BTreeSet::new();
    let mut st = vec![root];
    let (mut not, mut group, mut missing) = (false, false, false);
    while let Some(id) = st.pop() {
        if !seen.insert(id) {
            continue;
        }
        match store.node(id) {
            LineageNode::Not(c) => {
                not = true;
                st.push(*c);
            }
            LineageNode::And(c) | LineageNode::Or(c) => st.extend(c.iter().copied()),
            LineageNode::Literal(sid) => {
                let (g, m) = seed_info(sid.get());
                group |= g;
                missing |= m;
            }
            _ => {}
        }
    }
    (not, group, missing)
}

/// Features of the DAG that the engine was actually handed, i.e. after LineageStore's own
/// canonicalisation (!!x = x, x & !x = F, ...).
fn engine_lineage_features(f: &Formula, seeds: &SeedSet) -> (bool, bool, bool) {
    let e = build(f, seeds);
    let store = e.store.lock().unwrap();
    store_features(&store, e.root, &|raw| seeds.defs.iter().find(|d| d.raw == raw).map_or((false, false), |d| (d.group.is_some(), d.missing)))
}

fn report(ctx: &mut Ctx, entry: Entry, f: &Formula, seeds: &SeedSet, cfg: &Cfg, lim: &Limits, v: Viol) {
    let (mf, mv, tries) = shrink(entry, f, seeds, cfg, lim, v.clone());
    let mt = truth_of(&mf, seeds);
    let t = truth_of(f, seeds);
    let fault = match mv.mode {
        Mode::Frozen => "none",
        _ => "deadline_expiry",
    };
    // the lineage features are those of the minimised witness: what is left is needed
    let feat = engine_lineage_features(&mf, seeds);
    let sig = json!({
        "kind": mv.kind,
        "entry": mv.entry,
        "status": mv.status,
        "reason": mv.reason,
        "fault": fault,
        "lineage": if feat.0 { "negation" } else { "monotone" },
        "exclusive_group": feat.1,
        "missing_seed": feat.2,
    });
    let detail = json!({
        "minimal_witness": case_json(&mf, seeds, &mt),
        "minimal_witness_nodes": mf.size(),
        "minimal_witness_observation": mv.detail,
        "config": cfg.json(&mt),
        "original_case": case_json(f, seeds, &t),
        "original_observation": v.detail,
        "original_config": cfg.json(&t),
        "entry": format!("{:?}", entry),
        "shrink_attempts": tries,
    });
    ctx.violation(sig, detail);
}

// ---------------------------------------------------------------------------------------
// phases over lineage formulas

fn run_formula_case(ctx: &mut Ctx, f: &Formula, seeds: &SeedSet, cfgs: &[Cfg], lim: &Limits, k: u64, family: &str) {
    let t = truth_of(f, seeds);
    let cj = case_json(f, seeds, &t);
    let model = if f.uses_missing(seeds) {
        "missing_seed"
    } else if f.uses_group(seeds) {
        "exclusive_groups"
    } else {
        "independent"
    };
    ctx.count(&format!("cases.family.{}", family), 1);
    ctx.count(&format!("cases.lineage.{}.{}", if f.has_not() { "non_monotone" } else { "monotone" }, model), 1);
    if !seeds.dyadic {
        ctx.count("cases.non_dyadic_probabilities(tolerance 1e-9)", 1);
    }
    ctx.max("max_seeds", seeds.defs.len() as u64);
    ctx.max("max_formula_nodes", f.size() as u64);
    if ctx.wants_sample() && !t.constant {
        ctx.sample(json!({"case": cj, "configs": cfgs.iter().map(|c| c.json(&t)).collect::<Vec<_>>()}));
    }
    let mut tick_rng = ctx.rng_labeled("tick", k);
    for (ci, cfg) in cfgs.iter().enumerate() {
        let mut obs = Obs::default();
        let (_, v) = examine(Entry::Hybrid, f, seeds, cfg, lim, &mut tick_rng, &mut obs);
        let fired = obs.fault_changed_outcome;
        obs.count(format!("config.threshold.{}", cfg.thr.name()), 1);
        obs.count(format!("config.k_initial.{}", cfg.k0), 1);
        obs.count(format!("config.node_budget.{}", if cfg.node_budget >= 100_000 { "ample" } else if cfg.node_budget <= 8 { "2..8" } else { "9..128" }), 1);
        obs.flush(ctx);
        if !t.constant && fired {
            ctx.nontrivial(hash_str(&format!("{}|{}", cj, cfg.json(&t))));
        }
        if let Some(v) = v {
            report(ctx, Entry::Hybrid, f, seeds, cfg, lim, v);
            return;
        }
        // the other two entry points, with this config's budgets
        if ci < 2 {
            let mut obs = Obs::default();
            let entry = Entry::Compile(cfg.node_budget);
            let (_, v) = examine(entry, f, seeds, cfg, lim, &mut tick_rng, &mut obs);
            obs.flush(ctx);
            if let Some(v) = v {
                report(ctx, entry, f, seeds, cfg, lim, v);
                return;
            }
            for kk in [1usize, cfg.k0, cfg.kmax.min(64)] {
                let mut obs = Obs::default();
                let entry = Entry::TopK(kk, cfg.node_budget);
                let (_, v) = examine(entry, f, seeds, cfg, lim, &mut tick_rng, &mut obs);
                obs.flush(ctx);
                if let Some(v) = v {
                    report(ctx, entry, f, seeds, cfg, lim, v);
                    return;
                }
            }
        }
    }
}

fn phase_random(ctx: &mut Ctx) {
    let total = ctx.by_tier(3_600, 400_000);
    let ncfg = ctx.by_tier(3, 5);
    let lim = Limits { clock_points: ctx.by_tier(96, 400), ticks: ctx.by_tier(3, 6) };
    ctx.phase("random_lineage", total);
    while let Some(k) = ctx.next_case() {
        let mut r = ctx.rng(k);
        let n = *r.pick(&[1usize, 2, 3, 3, 4, 4, 5, 5, 6, 6, 7, 8, 9, 10, 11, 12]);
        let model = r.weighted(&[10, 7, 1]); // independent, groups, missing seed
        let dyadic = !r.chance(1, 8);
        let seeds = gen_seeds(&mut r, n, model == 1, dyadic, model == 2);
        let (family, f) = match r.weighted(&[5, 3, 2, 5, 5, 1, 3]) {
            6 => ("hidden_semantic_constants", gen_hidden_constants(&mut r, n)),
            0 => ("dnf_with_subsumption", gen_dnf(&mut r, n)),
            1 => ("and_of_ors", gen_cnf(&mut r, n)),
            2 => ("ladder", gen_ladder(&mut r, n)),
            3 => ("shared_dag_monotone", gen_dag(&mut r, n, false, false)),
            4 => ("shared_dag_with_not", gen_dag(&mut r, n, true, false)),
            _ => ("shared_dag_with_constants", gen_dag(&mut r, n, true, true)),
        };
        let cfgs: Vec<Cfg> = (0..ncfg).map(|_| gen_cfg(&mut r)).collect();
        run_formula_case(ctx, &f, &seeds, &cfgs, &lim, k, family);
    }
}

/// all antichains of subsets of {0,1,2,3} = all monotone functions of 4 seeds, as DNF
fn antichains4() -> Vec<Vec<u8>> {
    let mut out = vec![];
    for fam in 0u32..(1 << 16) {
        let sets: Vec<u8> = (0..16u8).filter(|s| fam >> s & 1 == 1).collect();
        let anti = sets.iter().all(|a| sets.iter().all(|b| a == b || (a & b) != *a));
        if anti {
            out.push(sets);
        }
    }
    out
}

fn phase_monotone4(ctx: &mut Ctx) {
    let fams = antichains4();
    let k0s = [1usize, 2, 3, 4, 6];
    let lim = Limits { clock_points: 400, ticks: 0 };
    // quick: one probability assignment per run seed; thorough: 6 assignments
    let per_rep = (fams.len() * k0s.len()) as u64;
    let reps = ctx.by_tier(1u64, 6);
    ctx.phase("all_monotone_functions_of_4_seeds", per_rep * reps);
    let mut done = 0u64;
    while let Some(kk) = ctx.next_case() {
        if !ctx.within(0.35) {
            ctx.count("phase_share_used_up.all_monotone_functions_of_4_seeds", 1);
            break;
        }
        let k = kk % per_rep;
        let fam = &fams[k as usize / k0s.len()];
        let k0 = k0s[k as usize % k0s.len()];
        // the probabilities depend on the run seed only (the function space is what is exhausted)
        let mut r = ctx.rng(kk / per_rep);
        let nums = [r.range(1, 15) as u32, r.range(1, 15) as u32, 8, r.range(1, 15) as u32];
        let seeds = SeedSet { defs: (0..4).map(|i| SeedDef { raw: i as u32, num: nums[i], prob: nums[i] as f64 / 16.0, group: None, missing: false }).collect(), dyadic: true };
        let mut nodes = lit_nodes(4);
        let mut tops = vec![];
        for s in fam {
            let c: Vec<usize> = (0..4).filter(|i| s >> i & 1 == 1).collect();
            nodes.push(Node::And(c)); // the empty conjunction is TRUE
            tops.push(nodes.len() - 1);
        }
        nodes.push(Node::Or(tops));
        let f = Formula { root: nodes.len() - 1, nodes };
        let mut cfgs = vec![];
        for (thr, nb) in [(Thr::At, 100_000usize), (Thr::JustAbove, 6), (Thr::JustBelow, 100_000), (Thr::JustAbove, 100_000), (Thr::At, 6), (Thr::Zero, 100_000), (Thr::One, 100_000)] {
            cfgs.push(Cfg { thr, policy: ThresholdPolicyKind::Explicit, band: 0.02, floor: 1e-4, k0, kmax: if thr == Thr::At { 8 } else { k0 }, growth: 2, node_budget: nb });
        }
        run_formula_case(ctx, &f, &seeds, &cfgs, &lim, k, "exhaustive_monotone4");
        done += 1;
    }
    ctx.count("exhaustive.monotone4_cases_done_in_this_shard", done);
}

/// all 256 boolean functions of 3 seeds as OR of minterms, under three seed models
fn phase_bool3(ctx: &mut Ctx) {
    let lim = Limits { clock_points: 400, ticks: 0 };
    let reps = ctx.by_tier(1u64, 6);
    ctx.phase("all_functions_of_3_seeds", 256 * 3 * reps);
    while let Some(kk) = ctx.next_case() {
        if !ctx.within(0.55) {
            ctx.count("phase_share_used_up.all_functions_of_3_seeds", 1);
            break;
        }
        let k = kk % (256 * 3);
        let func = (k / 3) as u32;
        let model = k % 3;
        let mut r = ctx.rng(model + 3 * (kk / (256 * 3)));
        let mut defs: Vec<SeedDef> = (0..3).map(|i| { let num = r.range(1, 15) as u32; SeedDef { raw: i as u32 + 2, num, prob: num as f64 / 16.0, group: None, missing: false } }).collect();
        if model == 1 {
            let a = r.range(1, 15) as u32;
            defs[0].num = a;
            defs[1].num = 16 - a;
            defs[0].group = Some(3);
            defs[1].group = Some(3);
        } else if model == 2 {
            let a = r.range(1, 14) as u32;
            let b = r.range(1, (15 - a) as usize) as u32;
            for (i, x) in [a, b, 16 - a - b].iter().enumerate() {
                defs[i].num = *x;
                defs[i].group = Some(0);
            }
        }
        for d in defs.iter_mut() {
            d.prob = d.num as f64 / 16.0;
        }
        let seeds = SeedSet { defs, dyadic: true };
        let mut nodes = lit_nodes(3);
        for i in 0..3 {
            nodes.push(Node::Not(i)); // 3,4,5
        }
        let mut tops = vec![];
        for m in 0..8u32 {
            if func >> m & 1 == 1 {
                let c: Vec<usize> = (0..3).map(|i| if m >> i & 1 == 1 { i } else { 3 + i }).collect();
                nodes.push(Node::And(c));
                tops.push(nodes.len() - 1);
            }
        }
        nodes.push(Node::Or(tops));
        let f = Formula { root: nodes.len() - 1, nodes };
        let mut cfgs = vec![];
        for (thr, nb) in [(Thr::At, 100_000usize), (Thr::JustAbove, 12), (Thr::JustBelow, 100_000)] {
            cfgs.push(Cfg { thr, policy: ThresholdPolicyKind::Explicit, band: 0.02, floor: 1e-4, k0: 2, kmax: 8, growth: 2, node_budget: nb });
        }
        run_formula_case(ctx, &f, &seeds, &cfgs, &lim, k, "exhaustive_bool3");
    }
}

// ---------------------------------------------------------------------------------------
// end to end: Reasoner::infer_new_facts_with_hybrid on acyclic programs

fn eval_lineage(store: &LineageStore, id: LineageId, raw_true: &dyn Fn(u32) -> bool, memo: &mut HashMap<LineageId, bool>) -> bool {
    if let Some(v) = memo.get(&id) {
        return *v;
    }
    let v = match store.node(id) {
        LineageNode::False => false,
        LineageNode::True => true,
        LineageNode::Literal(s) => raw_true(s.get()),
        LineageNode::Not(c) => !eval_lineage(store, *c, raw_true, memo),
        LineageNode::And(ch) => ch.iter().all(|c| eval_lineage(store, *c, raw_true, memo)),
        LineageNode::Or(ch) => ch.iter().any(|c| eval_lineage(store, *c, raw_true, memo)),
    };
    memo.insert(id, v);
    v
}

fn phase_e2e(ctx: &mut Ctx) {
    let total = ctx.by_tier(4_000, 100_000);
    ctx.phase("end_to_end_reasoner", total);
    while let Some(k) = ctx.next_case() {
        if !ctx.within(0.70) {
            ctx.count("phase_share_used_up.end_to_end_reasoner", 1);
            break;
        }
        let mut r = ctx.rng(k);
        let mut re = Reasoner::new();
        let nc = r.range(2, 3);
        let (consts, preds): (Vec<u32>, Vec<u32>) = {
            let mut d = re.dictionary.write().unwrap();
            ((0..nc).map(|i| d.encode(&format!("http://k/c{}", i))).collect(), (0..5).map(|i| d.encode(&format!("http://k/p{}", i))).collect())
        };
        let name = |id: u32| -> String {
            if let Some(i) = consts.iter().position(|x| *x == id) {
                format!("c{}", i)
            } else if let Some(i) = preds.iter().position(|x| *x == id) {
                format!("p{}", i)
            } else {
                format!("#{}", id)
            }
        };
        // uncertain input facts in layers 0 and 1 (two seeds may carry the same triple)
        let ns = r.range(1, ctx.by_tier(8, 10));
        let mut seed_triples: Vec<Fact> = vec![];
        for _ in 0..ns {
            if !seed_triples.is_empty() && r.chance(1, 7) {
                let t = *r.pick(&seed_triples);
                seed_triples.push(t);
            } else {
                seed_triples.push((*r.pick(&consts), preds[r.below(2)], *r.pick(&consts)));
            }
        }
        let groups = r.chance(2, 5);
        let mut seeds = gen_seeds(&mut r, ns, groups, true, false);
        // ids must be distinct per seed; triples may repeat only among independent seeds
        for i in 0..ns {
            if seeds.defs[i].group.is_some() {
                while seed_triples[..i].contains(&seed_triples[i]) || seed_triples[i + 1..].contains(&seed_triples[i]) {
                    seed_triples[i] = (*r.pick(&consts), preds[r.below(2)], consts[r.below(nc)]);
                    if r.chance(1, 20) {
                        seeds.defs[i].group = None;
                        seeds.defs[i].num = 8;
                        seeds.defs[i].prob = 0.5;
                        break;
                    }
                }
            }
        }
        // a group that lost a member no longer sums to 1: dissolve such groups
        let mut sums: BTreeMap<u32, u32> = BTreeMap::new();
        for d in &seeds.defs {
            if let Some(g) = d.group {
                *sums.entry(g).or_insert(0) += d.num;
            }
        }
        for d in seeds.defs.iter_mut() {
            if let Some(g) = d.group {
                if sums[&g] != 16 {
                    d.group = None;
                    d.prob = d.num as f64 / 16.0;
                }
            }
        }
        // a triple is either certain or carried by seeds, never both
        let certain: Vec<Fact> = (0..r.range(0, 3)).map(|_| (*r.pick(&consts), preds[r.below(3)], *r.pick(&consts))).filter(|f| !seed_triples.contains(f)).collect();
        // rules: head layer above every body layer
        let vars = ["X", "Y", "Z"];
        let term = |r: &mut Rng, pool: &[&str]| -> Term {
            if r.chance(3, 4) && !pool.is_empty() {
                Term::Variable(r.pick(pool).to_string())
            } else {
                Term::Constant(*r.pick(&consts))
            }
        };
        let mut rules: Vec<Rule> = vec![];
        let nr = r.range(1, 4);
        let mut has_neg = false;
        for ri in 0..nr {
            let negative = ri == nr - 1 && r.chance(1, 3);
            let h = if negative { 4 } else { r.range(1, 3) };
            let np = r.range(1, 2) + if r.chance(1, 6) { 1 } else { 0 };
            let mut prem: Vec<TriplePattern> = vec![];
            for _ in 0..np {
                let bl = r.below(h.min(4));
                prem.push((term(&mut r, &vars), Term::Constant(preds[bl]), term(&mut r, &vars)));
            }
            let bound: Vec<&str> = vars.iter().copied().filter(|v| prem.iter().any(|p| p.0 == Term::Variable(v.to_string()) || p.2 == Term::Variable(v.to_string()))).collect();
            let mut negp = vec![];
            if negative {
                negp.push((term(&mut r, &bound), Term::Constant(preds[r.below(4)]), term(&mut r, &bound)));
                has_neg = true;
            }
            let head = (term(&mut r, &bound), Term::Constant(preds[h]), term(&mut r, &bound));
            rules.push(Rule { premise: prem, negative_premise: negp, filters: vec![], conclusion: vec![head] });
        }
        let show_t = |t: &Term| match t {
            Term::Variable(v) => format!("?{}", v),
            Term::Constant(c) => name(*c),
            _ => "<<>>".into(),
        };
        let show_p = |p: &TriplePattern| format!("{} {} {}", show_t(&p.0), show_t(&p.1), show_t(&p.2));
        let show_f = |f: &Fact| format!("{} {} {}", name(f.0), name(f.1), name(f.2));
        let cj = json!({
            "seeds": seeds.defs.iter().zip(&seed_triples).map(|(d, t)| json!({"id": d.raw, "p": d.prob, "group": d.group, "triple": show_f(t)})).collect::<Vec<_>>(),
            "certain_facts": certain.iter().map(show_f).collect::<Vec<_>>(),
            "rules": rules.iter().map(|ru| format!("{}{} => {}", ru.premise.iter().map(show_p).collect::<Vec<_>>().join(" , "), ru.negative_premise.iter().map(|p| format!(" , NOT {}", show_p(p))).collect::<String>(), ru.conclusion.iter().map(show_p).collect::<Vec<_>>().join(" , "))).collect::<Vec<_>>(),
        });
        // ---- oracle: possible worlds x stratified model
        let w = worlds(&seeds, false);
        let mut acc: BTreeMap<Fact, u64> = BTreeMap::new();
        for x in 0..w.n() {
            if w.w_int[x] == 0 {
                continue;
            }
            let mut input: BTreeSet<Fact> = certain.iter().copied().collect();
            for i in 0..ns {
                if w.holds(i, x) {
                    input.insert(seed_triples[i]);
                }
            }
            let m = stratified_model(&rules, &input, &|_| None);
            for f in m.facts {
                *acc.entry(f).or_insert(0) += w.w_int[x];
            }
        }
        let den = (1u64 << w.shift) as f64;
        let prob_of = |f: &Fact| acc.get(f).map(|n| *n as f64 / den).unwrap_or(0.0);
        let input_set: BTreeSet<Fact> = certain.iter().chain(seed_triples.iter()).copied().collect();
        let derived: Vec<(Fact, f64)> = acc.iter().filter(|(f, _)| !input_set.contains(*f)).map(|(f, n)| (*f, *n as f64 / den)).collect();
        let uncertain = derived.iter().filter(|(_, p)| *p > 0.0 && *p < 1.0).count();
        // ---- config: threshold relative to the truth of one derived fact; generous wall-clock
        let mut cfg = gen_cfg(&mut r);
        let anchor = if derived.is_empty() { 0.5 } else { r.pick(&derived).1 };
        let tr = Truth { lo: anchor, hi: anchor, tol: 0.0, constant: false };
        let hc = cfg.make(&tr, FAR, FAR);
        cfg.policy = ThresholdPolicyKind::Explicit;
        // ---- engine
        for c in &certain {
            re.insert_ground_triple(Triple { subject: c.0, predicate: c.1, object: c.2 });
        }
        let mut ok_rules = true;
        for ru in &rules {
            if re.try_add_rule(ru.clone()).is_err() {
                ok_rules = false;
            }
        }
        if !ok_rules {
            ctx.count("e2e.skipped_unsafe_rule", 1);
            continue;
        }
        let mut specs = vec![];
        let mut gs: BTreeMap<u32, Vec<ExclusiveChoice>> = BTreeMap::new();
        for (d, t) in seeds.defs.iter().zip(&seed_triples) {
            let triple = Triple { subject: t.0, predicate: t.1, object: t.2 };
            match d.group {
                None => specs.push(SeedSpec::Independent { triple, prob: d.prob, seed_id: d.raw }),
                Some(g) => gs.entry(g).or_default().push(ExclusiveChoice { triple, prob: d.prob, choice_id: d.raw }),
            }
        }
        for (g, choices) in gs {
            specs.push(SeedSpec::ExclusiveGroup { group_id: g, choices });
        }
        let snap = SeedSnapshot::from_seed_specs(&specs).expect("seed specs");
        ctx.add_evals(1);
        let out = guard(move || {
            let o = re.infer_new_facts_with_hybrid(snap, &hc);
            (o, hc)
        });
        let (out, hc) = match out {
            Ok(x) => x,
            Err(p) => {
                ctx.violation(json!({"kind": "panic", "entry": "infer_new_facts_with_hybrid", "site": panic_site(&p)}), json!({"case": cj, "panic": p, "config": cfg.json(&tr)}));
                continue;
            }
        };
        let (new_facts, results, mat) = match out {
            Ok(x) => x,
            Err(e) => {
                ctx.count(&format!("e2e.rejected.{}", format!("{:?}", e).split('(').next().unwrap_or("?")), 1);
                continue;
            }
        };
        ctx.count("e2e.programs_evaluated", 1);
        ctx.count("e2e.facts_with_hybrid_result", results.len() as u64);
        if has_neg {
            ctx.count("e2e.programs_with_negative_rule", 1);
        }
        if groups {
            ctx.count("e2e.programs_with_exclusive_groups", 1);
        }
        if uncertain > 0 {
            ctx.nontrivial(hash_str(&format!("{}|{}", cj, cfg.json(&tr))));
        }
        if ctx.wants_sample() && uncertain > 0 {
            ctx.sample(json!({"case": cj, "config": cfg.json(&tr), "derived_with_probability": derived.iter().map(|(f, p)| format!("{} : {}", show_f(f), p)).collect::<Vec<_>>()}));
        }
        let raw_index: HashMap<u32, usize> = seeds.defs.iter().enumerate().map(|(i, d)| (d.raw, i)).collect();
        let store = mat.tags.provenance().store().lock().unwrap();
        for triple in &new_facts {
            let fact: Fact = (triple.subject, triple.predicate, triple.object);
            let Some(res) = results.get(triple) else {
                ctx.violation(json!({"kind": "new_fact_without_result", "entry": "infer_new_facts_with_hybrid"}), json!({"case": cj, "fact": show_f(&fact)}));
                continue;
            };
            let p = prob_of(&fact);
            let t = Truth { lo: p, hi: p, tol: 0.0, constant: false };
            ctx.count(&format!("e2e.result.{}", outcome_key(res)), 1);
            if let Some(kind) = check_result(res, &t, hc.threshold) {
                // where does it come from: is the lineage formula itself right?
                let lid = mat.lineage(triple);
                let mut lin: u64 = 0;
                for x in 0..w.n() {
                    let mut memo = HashMap::new();
                    if eval_lineage(&store, lid, &|raw| raw_index.get(&raw).map_or(false, |i| w.holds(*i, x)), &mut memo) {
                        lin += w.w_int[x];
                    }
                }
                let lin_p = lin as f64 / den;
                // features of this fact's own lineage DAG, not of the whole program
                let feat = store_features(&store, lid, &|raw| raw_index.get(&raw).map_or((false, false), |i| (seeds.defs[*i].group.is_some(), false)));
                let cause = if lin_p != p { "lineage_formula_differs_from_possible_worlds" } else { "hybrid_evaluation_of_a_correct_lineage" };
                ctx.violation(
                    json!({"kind": kind, "entry": "infer_new_facts_with_hybrid", "status": res.status(), "reason": res.reason().as_str(), "cause": cause, "lineage": if feat.0 { "negation" } else { "monotone" }, "exclusive_group": feat.1}),
                    json!({"case": cj, "config": cfg.json(&tr), "fact": show_f(&fact), "true_probability": p, "probability_of_the_lineage_formula": lin_p, "result": format!("{:?}", res)}),
                );
                break;
            }
        }
        let got: BTreeSet<Fact> = new_facts.iter().map(|t| (t.subject, t.predicate, t.object)).collect();
        let missing = derived.iter().filter(|(f, p)| *p > 0.0 && !got.contains(f)).count();
        if missing > 0 {
            // completeness of materialisation is C05/C06's subject; recorded, not judged here
            ctx.count("e2e.observation.derivable_facts_absent_from_new_facts", missing as u64);
        }
    }
}

// ---------------------------------------------------------------------------------------
// configurations at the edge of validate(): valid ones must not panic, invalid ones must
// never produce a decision

fn phase_config_edges(ctx: &mut Ctx) {
    let edges: Vec<(&str, Box<dyn Fn(&mut HybridConfig)>)> = vec![
        ("topk_budget=Duration::MAX", Box::new(|c| c.topk_budget = Duration::MAX)),
        ("sdd_budget=Duration::MAX", Box::new(|c| c.sdd_budget = Duration::MAX)),
        ("k_initial=k_max=usize::MAX", Box::new(|c| { c.k_initial = usize::MAX; c.k_max = usize::MAX; })),
        ("k_max=usize::MAX,k_growth=usize::MAX", Box::new(|c| { c.k_initial = 1; c.k_max = usize::MAX; c.k_growth = usize::MAX; c.band_epsilon = 1.0; })),
        ("sdd_node_budget=usize::MAX", Box::new(|c| c.sdd_node_budget = usize::MAX)),
        ("marginal_gain_floor=f64::MAX,band=1", Box::new(|c| { c.marginal_gain_floor = f64::MAX; c.band_epsilon = 1.0; })),
        ("budgets=1ns", Box::new(|c| { c.topk_budget = Duration::from_nanos(1); c.sdd_budget = Duration::from_nanos(1); })),
        ("invalid:threshold=NaN", Box::new(|c| c.threshold = f64::NAN)),
        ("invalid:threshold=1.5", Box::new(|c| c.threshold = 1.5)),
        ("invalid:k_initial=0", Box::new(|c| c.k_initial = 0)),
        ("invalid:k_initial>k_max", Box::new(|c| { c.k_initial = 9; c.k_max = 8; })),
        ("invalid:k_growth=1", Box::new(|c| c.k_growth = 1)),
        ("invalid:node_budget=1", Box::new(|c| c.sdd_node_budget = 1)),
        ("invalid:topk_budget=0", Box::new(|c| c.topk_budget = Duration::ZERO)),
        ("invalid:band=-1", Box::new(|c| c.band_epsilon = -1.0)),
        ("invalid:gain_floor=NaN", Box::new(|c| c.marginal_gain_floor = f64::NAN)),
    ];
    let per = 6u64;
    ctx.phase("config_edges", edges.len() as u64 * per);
    while let Some(k) = ctx.next_case() {
        let (name, edit) = &edges[(k / per) as usize];
        let mut r = ctx.rng(k % per);
        let n = r.range(2, 6);
        let seeds = gen_seeds(&mut r, n, k % per == 5, true, false);
        let f = if k % per == 3 {
            // exclusive-or: certainly non-monotone, so the exact (SDD) stage is certainly reached
            Formula { nodes: vec![Node::Lit(0), Node::Lit(1), Node::Not(0), Node::Not(1), Node::And(vec![0, 3]), Node::And(vec![1, 2]), Node::Or(vec![4, 5])], root: 6 }
        } else if k % per > 3 {
            gen_dag(&mut r, n, true, false)
        } else {
            gen_dnf(&mut r, n)
        };
        let t = truth_of(&f, &seeds);
        let e = build(&f, &seeds);
        let mut hc = HybridConfig { threshold: t.lo, ..HybridConfig::default() };
        edit(&mut hc);
        let valid = hc.validate().is_ok();
        if valid == name.starts_with("invalid") {
            ctx.inconclusive(&format!("config edge '{}' has validity {} — monitor table out of date", name, valid));
            continue;
        }
        let cj = case_json(&f, &seeds, &t);
        for clock_kind in ["system", "frozen"] {
            ctx.add_evals(1);
            let res = guard(|| {
                if clock_kind == "system" {
                    shared::hybrid::evaluate_hybrid(&e.store, &e.seeds, e.root, &hc)
                } else {
                    evaluate_hybrid_with_clock(&e.store, &e.seeds, e.root, &hc, &FaultClock::new(Mode::Frozen))
                }
            });
            match res {
                Err(p) => {
                    // the cause is established: the default configuration differs from this one in
                    // the named field only and evaluates the same case without a panic
                    let default_ok = guard(|| shared::hybrid::evaluate_hybrid(&e.store, &e.seeds, e.root, &HybridConfig { threshold: t.lo, ..HybridConfig::default() })).is_ok();
                    let field = if name.starts_with("k_") { "k_initial/k_max" } else { name.split('=').next().unwrap_or(name) };
                    let msg = p.rsplit_once(" @ ").map(|x| x.0).unwrap_or(&p).to_string();
                    ctx.violation(json!({"kind": "panic", "entry": "evaluate_hybrid", "valid_config_field": field, "panic": msg, "default_config_evaluates": default_ok}), json!({"case": cj, "config_edge": name, "clock": clock_kind, "panic": p, "site": panic_site(&p)}));
                    break;
                }
                Ok(res) => {
                    ctx.count(&format!("config_edges.{}.{}", if valid { "valid" } else { "invalid" }, res.status()), 1);
                    if valid {
                        ctx.nontrivial(hash_str(&format!("{}|{}", cj, name)));
                        if let Some(kind) = check_result(&res, &t, hc.threshold) {
                            ctx.violation(json!({"kind": kind, "entry": "evaluate_hybrid", "status": res.status(), "reason": res.reason().as_str()}), json!({"case": cj, "config_edge": name, "clock": clock_kind, "result": format!("{:?}", res)}));
                            break;
                        }
                    } else if !matches!(res, HybridProbabilityResult::NeedsExact { .. }) {
                        ctx.violation(json!({"kind": "answer_under_invalid_configuration", "entry": "evaluate_hybrid", "config": name}), json!({"case": cj, "config_edge": name, "result": format!("{:?}", res)}));
                        break;
                    }
                }
            }
        }
    }
}

fn run(ctx: &mut Ctx) {
    let phases: [(&str, fn(&mut Ctx)); 5] = [("config_edges", phase_config_edges), ("monotone4", phase_monotone4), ("bool3", phase_bool3), ("e2e", phase_e2e), ("random", phase_random)];
    for (name, f) in phases {
        let t0 = Instant::now();
        f(ctx);
        // informational only (summed over shards); never used for a verdict
        ctx.count(&format!("cpu_ms_spent.{}", name), t0.elapsed().as_millis() as u64);
    }
}

fn main() {
    let mut spec = Spec::new("C08", "fault_enumeration", RULE);
    spec.assumptions = &[
        "seed probabilities are dyadic (n/16) so that the oracle's integer world count, the engine's f64 arithmetic and every threshold comparison are exact; one case in eight uses arbitrary f64 probabilities with tolerance 1e-9 and thresholds at least 1e-6 away from the truth",
        "the probabilities of an exclusive group sum to 1 and a triple carries at most one group member (the documented annotated-disjunction fragment)",
        "formulas are acyclic by construction (LineageStore only builds DAGs); <= 12 seeds so all worlds are enumerated",
        "deadline expiry is injected through HybridClock only; evaluate_topk and infer_new_facts_with_hybrid have no injectable clock and are run with a one-hour budget so that wall-clock never influences a verdict",
        "a seed missing from the snapshot has an unknown probability: claims are checked against the range obtained with p=0 and p=1",
        "end-to-end programs: a triple is either a certain input fact or carried by seeds, never both; constant predicates, layered (acyclic) dependency graph, no filters, at most one rule with one negated atom whose head predicate feeds no rule; oracle = possible worlds x M-DATALOG stratified model",
        "trusted base: the monitor's own formula evaluator over world bitsets, kvcore::mdatalog",
    ];
    spec.quick_budget_s = 40;
    spec.thorough_budget_s = 600;
    kvcore::run(spec, run);
}
