//! C12 — Incremental cross-window reasoning equals recomputation from scratch.
//!
//! Events: the `SdsWithExpiry` returned by `incremental_sds_plus` at every evaluation time of
//! a window-consistent stream history (the state of step i is the input of step i+1), the
//! buckets of `naive_sds_plus` and of `sds_with_expiry_to_external` at the same times.
//!
//! Oracle (independent of the engine, of `ExpirationProvenance` and of the dictionary):
//!   * the alive base facts at T are computed from the raw item list (latest arrival <= T of
//!     every triple of a window, alive while arrival + alpha > T; static facts never expire);
//!   * the fact set is the M-DATALOG least model of the rules over the alive facts;
//!   * the expiry of a fact is found by a threshold sweep: the largest e among the distinct
//!     base expiries such that the fact is in the least model of the base facts whose expiry
//!     is >= e ( = max over derivations of the min premise expiry).
//! Everything is compared lexically (component IRI, subject, annotated predicate, object).

use datalog::cross_window_sds::{all_component_iris, sds_with_expiry_to_external, Sds, WindowData, WindowedTriple};
use datalog::reasoning::materialisation::cross_window_incremental::{incremental_sds_plus, SdsWithExpiry};
use datalog::reasoning::materialisation::cross_window_naive::naive_sds_plus;
use kvcore::mdatalog::{least_model, Fact};
use kvcore::{guard, hash_str, json, panic_site, Ctx, Rng, Spec, Value};
use shared::dictionary::Dictionary;
use shared::rule::Rule;
use shared::terms::{Term, TriplePattern};
use shared::triple::Triple;
use std::collections::{BTreeMap, BTreeSet, HashMap};
use std::sync::{Arc, RwLock};

const RULE: &str = "window-consistent histories: 1-4 windows with widths 1-10, optional static graphs, 1-2 output components (also prefix-nested component IRIs); positive rules over component-annotated predicates built as Rule values (chains 1-4, joins across windows / with static facts / with derived facts, transitive closure, cycles, two derivations of one fact, derivation into a window predicate, several conclusions, constants, repeated variables, random rules); items with arrival times incl. renewals placed just before / at / after expiry and the same triple in several windows; 3-12 strictly increasing evaluation times drawn from arrivals, expiries, expiry+-1, dense runs and times after everything expired; phase exhaustive_small enumerates all arrival patterns of two one-triple streams over 5 time points x 4 rule sets x 3 evaluation grids. Each window content lists a triple once with its latest arrival. Non-trivial = at >= 2 evaluation steps the expected materialisation contains a derived fact, some derived fact is carried from one step to the next, and some derived fact expires or has its expiry extended during the history; distinct by hash of the history.";

// ----------------------------------------------------------------------------------------
// case description (generator index space; strings only at the boundary to the engine)
// ----------------------------------------------------------------------------------------

#[derive(Clone, Debug, PartialEq, Eq, Hash)]
enum PT {
    V(u8),
    E(usize),
}

#[derive(Clone, Debug, PartialEq, Eq)]
enum Kind {
    Window(u64),
    Static,
    Output,
    /// a predicate prefix that is NOT registered as a component of the SDS (outside the
    /// quantifier of the property; only used by the informational probe phase)
    Unregistered,
}

#[derive(Clone, Debug)]
struct Comp {
    iri: String,
    kind: Kind,
}

#[derive(Clone, Debug, PartialEq, Eq)]
struct Atom {
    comp: usize,
    local: usize,
    s: PT,
    o: PT,
}

#[derive(Clone, Debug)]
struct ARule {
    body: Vec<Atom>,
    head: Vec<Atom>,
}

#[derive(Clone, Debug, PartialEq, Eq)]
struct Item {
    win: usize,
    t: u64,
    s: usize,
    p: usize,
    o: usize,
}

#[derive(Clone, Debug)]
struct Case {
    comps: Vec<Comp>,
    rules: Vec<ARule>,
    items: Vec<Item>,
    /// (component, s, local, o)
    statics: Vec<(usize, usize, usize, usize)>,
    times: Vec<u64>,
    /// a window content keeps listing an entry this many time units after it expired
    /// (translate_sds_to_datalog is documented to drop such entries)
    linger: u64,
    features: Vec<String>,
    time_mode: String,
}

const VARS: [&str; 4] = ["X", "Y", "Z", "W"];

fn ent(i: usize) -> String {
    format!("e{}", i)
}
fn local_name(i: usize) -> String {
    format!("p{}", i)
}
fn annot(c: &Case, comp: usize, local: usize) -> String {
    format!("{}{}", c.comps[comp].iri, local_name(local))
}
/// predicate code of the oracle's own encoding
fn pcode(comp: usize, local: usize) -> u32 {
    1000 + (comp as u32) * 100 + local as u32
}
fn pdecode(code: u32) -> (usize, usize) {
    (((code - 1000) / 100) as usize, ((code - 1000) % 100) as usize)
}

fn pt_str(t: &PT) -> String {
    match t {
        PT::V(v) => format!("?{}", VARS[*v as usize % 4]),
        PT::E(e) => ent(*e),
    }
}
fn atom_str(c: &Case, a: &Atom) -> String {
    format!("{}({},{})", annot(c, a.comp, a.local), pt_str(&a.s), pt_str(&a.o))
}
fn rule_str(c: &Case, r: &ARule) -> String {
    format!("{} => {}", r.body.iter().map(|a| atom_str(c, a)).collect::<Vec<_>>().join(" , "), r.head.iter().map(|a| atom_str(c, a)).collect::<Vec<_>>().join(" , "))
}

fn case_json(c: &Case) -> Value {
    json!({
        "components": c.comps.iter().map(|k| match k.kind {
            Kind::Window(a) => format!("window {} alpha={}", k.iri, a),
            Kind::Static => format!("static {}", k.iri),
            Kind::Output => format!("output {}", k.iri),
            Kind::Unregistered => format!("unregistered predicate prefix {}", k.iri),
        }).collect::<Vec<_>>(),
        "rules": c.rules.iter().map(|r| rule_str(c, r)).collect::<Vec<_>>(),
        "items": c.items.iter().map(|i| format!("{} @{}: {} {} {}", c.comps[i.win].iri, i.t, ent(i.s), local_name(i.p), ent(i.o))).collect::<Vec<_>>(),
        "static_facts": c.statics.iter().map(|(g, s, p, o)| format!("{}: {} {} {}", c.comps[*g].iri, ent(*s), local_name(*p), ent(*o))).collect::<Vec<_>>(),
        "evaluation_times": c.times,
        "content_lingers_after_expiry": c.linger,
        "features": c.features,
        "time_mode": c.time_mode,
    })
}

// ----------------------------------------------------------------------------------------
// history semantics (the quantifier of the property) and the oracle
// ----------------------------------------------------------------------------------------

/// latest arrival <= t of every triple of window `w`
fn latest_arrivals(c: &Case, w: usize, t: u64) -> BTreeMap<(usize, usize, usize), u64> {
    let mut m: BTreeMap<(usize, usize, usize), u64> = BTreeMap::new();
    for it in &c.items {
        if it.win == w && it.t <= t {
            let e = m.entry((it.s, it.p, it.o)).or_insert(it.t);
            if it.t > *e {
                *e = it.t;
            }
        }
    }
    m
}

/// alive base facts at t with their expiry (oracle encoding)
fn alive_base(c: &Case, t: u64) -> BTreeMap<Fact, u64> {
    let mut base = BTreeMap::new();
    for (w, k) in c.comps.iter().enumerate() {
        if let Kind::Window(alpha) = k.kind {
            for ((s, p, o), arr) in latest_arrivals(c, w, t) {
                if arr + alpha > t {
                    base.insert((s as u32, pcode(w, p), o as u32), arr + alpha);
                }
            }
        }
    }
    for (g, s, p, o) in &c.statics {
        base.insert((*s as u32, pcode(*g, *p), *o as u32), u64::MAX);
    }
    base
}

/// the window contents handed to the engine at t
fn build_sds(c: &Case, t: u64, order: &mut Rng) -> Sds {
    let mut sds = Sds::new();
    for (w, k) in c.comps.iter().enumerate() {
        match k.kind {
            Kind::Window(alpha) => {
                let mut triples: Vec<WindowedTriple> = latest_arrivals(c, w, t)
                    .into_iter()
                    .filter(|(_, arr)| arr + alpha + c.linger > t)
                    .map(|((s, p, o), arr)| WindowedTriple { subject: ent(s), predicate: local_name(p), object: ent(o), event_time: arr })
                    .collect();
                order.shuffle(&mut triples);
                sds.windows.insert(k.iri.clone(), WindowData { alpha, triples });
            }
            Kind::Static => {
                let mut v: Vec<(String, String, String)> = c.statics.iter().filter(|x| x.0 == w).map(|(_, s, p, o)| (ent(*s), local_name(*p), ent(*o))).collect();
                order.shuffle(&mut v);
                sds.static_graphs.insert(k.iri.clone(), v);
            }
            Kind::Output => {
                sds.output_iris.insert(k.iri.clone());
            }
            Kind::Unregistered => {}
        }
    }
    sds
}

fn oracle_term(t: &PT) -> Term {
    match t {
        PT::V(v) => Term::Variable(VARS[*v as usize % 4].to_string()),
        PT::E(e) => Term::Constant(*e as u32),
    }
}
fn oracle_rules(c: &Case) -> Vec<Rule> {
    let pat = |a: &Atom| -> TriplePattern { (oracle_term(&a.s), Term::Constant(pcode(a.comp, a.local)), oracle_term(&a.o)) };
    c.rules.iter().map(|r| Rule { premise: r.body.iter().map(pat).collect(), negative_premise: vec![], filters: vec![], conclusion: r.head.iter().map(pat).collect() }).collect()
}
fn engine_term(d: &mut Dictionary, t: &PT) -> Term {
    match t {
        PT::V(v) => Term::Variable(VARS[*v as usize % 4].to_string()),
        PT::E(e) => Term::Constant(d.encode(&ent(*e))),
    }
}
fn engine_rules(c: &Case, dict: &Arc<RwLock<Dictionary>>) -> Vec<Rule> {
    let mut d = dict.write().unwrap();
    let mut out = vec![];
    for r in &c.rules {
        let mut pat = |a: &Atom| -> TriplePattern {
            let s = engine_term(&mut d, &a.s);
            let p = Term::Constant(d.encode(&annot(c, a.comp, a.local)));
            let o = engine_term(&mut d, &a.o);
            (s, p, o)
        };
        let premise: Vec<TriplePattern> = r.body.iter().map(&mut pat).collect();
        let conclusion: Vec<TriplePattern> = r.head.iter().map(&mut pat).collect();
        out.push(Rule { premise, negative_premise: vec![], filters: vec![], conclusion });
    }
    out
}

struct Expected {
    base: BTreeMap<Fact, u64>,
    /// every fact of the from-scratch model with its expiry
    facts: BTreeMap<Fact, u64>,
    max_height: u32,
    thresholds: usize,
    too_large: bool,
}

const MAX_MODEL: usize = 90;

fn no_decode(_: u32) -> Option<String> {
    None
}

fn expected_at(c: &Case, orules: &[Rule], t: u64) -> Expected {
    let base = alive_base(c, t);
    let mut ths: Vec<u64> = base.values().copied().collect::<BTreeSet<u64>>().into_iter().collect();
    ths.reverse();
    let mut facts: BTreeMap<Fact, u64> = BTreeMap::new();
    let mut max_height = 0;
    let mut too_large = false;
    for &e in &ths {
        let input: BTreeSet<Fact> = base.iter().filter(|(_, &x)| x >= e).map(|(f, _)| *f).collect();
        let m = least_model(orules, &input, &no_decode);
        if m.facts.len() > MAX_MODEL {
            too_large = true;
            break;
        }
        for f in &m.facts {
            facts.entry(*f).or_insert(e);
        }
        max_height = max_height.max(m.height.values().copied().max().unwrap_or(0));
    }
    Expected { base, facts, max_height, thresholds: ths.len(), too_large }
}

type LKey = (String, String, String, String); // component iri, subject, annotated predicate, object

fn lex_expected(c: &Case, ex: &BTreeMap<Fact, u64>) -> BTreeMap<LKey, u64> {
    ex.iter()
        .filter(|(f, _)| c.comps[pdecode(f.1).0].kind != Kind::Unregistered)
        .map(|(f, e)| {
            let (comp, local) = pdecode(f.1);
            ((c.comps[comp].iri.clone(), ent(f.0 as usize), annot(c, comp, local), ent(f.2 as usize)), *e)
        })
        .collect()
}
fn lkey_of(c: &Case, f: &Fact) -> LKey {
    let (comp, local) = pdecode(f.1);
    (c.comps[comp].iri.clone(), ent(f.0 as usize), annot(c, comp, local), ent(f.2 as usize))
}

fn decode_state(st: &SdsWithExpiry, dict: &Arc<RwLock<Dictionary>>) -> Result<BTreeMap<LKey, u64>, String> {
    let d = dict.read().unwrap();
    let mut out = BTreeMap::new();
    for (comp, m) in st {
        for (t, e) in m {
            let s = d.decode(t.subject).ok_or("undecodable subject id")?.to_string();
            let p = d.decode(t.predicate).ok_or("undecodable predicate id")?.to_string();
            let o = d.decode(t.object).ok_or("undecodable object id")?.to_string();
            if out.insert((comp.clone(), s, p, o), *e).is_some() {
                return Err("two entries decode to the same fact".into());
            }
        }
    }
    Ok(out)
}

/// (component, s, local predicate, o) sets of the external / naive bucket form
fn decode_buckets(b: &HashMap<String, Vec<Triple>>, dict: &Arc<RwLock<Dictionary>>) -> Result<(BTreeSet<LKey>, usize), String> {
    let d = dict.read().unwrap();
    let mut out = BTreeSet::new();
    let mut n = 0;
    for (comp, v) in b {
        for t in v {
            n += 1;
            let s = d.decode(t.subject).ok_or("undecodable subject id")?.to_string();
            let p = d.decode(t.predicate).ok_or("undecodable predicate id")?.to_string();
            let o = d.decode(t.object).ok_or("undecodable object id")?.to_string();
            out.insert((comp.clone(), s, p, o));
        }
    }
    Ok((out, n))
}
fn stripped_expected(c: &Case, ex: &BTreeMap<Fact, u64>) -> BTreeSet<LKey> {
    ex.keys()
        .filter(|f| c.comps[pdecode(f.1).0].kind != Kind::Unregistered)
        .map(|f| {
            let (comp, local) = pdecode(f.1);
            (c.comps[comp].iri.clone(), ent(f.0 as usize), local_name(local), ent(f.2 as usize))
        })
        .collect()
}

// ----------------------------------------------------------------------------------------
// running one history
// ----------------------------------------------------------------------------------------

#[derive(Default)]
struct Stats {
    n: BTreeMap<&'static str, u64>,
    mx: BTreeMap<&'static str, u64>,
    nontrivial: bool,
    skipped_too_large: bool,
    evals: u64,
}
impl Stats {
    fn add(&mut self, k: &'static str, v: u64) {
        *self.n.entry(k).or_insert(0) += v;
    }
    fn max(&mut self, k: &'static str, v: u64) {
        let e = self.mx.entry(k).or_insert(0);
        if v > *e {
            *e = v;
        }
    }
}

struct Finding {
    sig: Value,
    detail: Value,
}

fn fmt_key(k: &LKey) -> String {
    format!("[{}] {} {} {}", k.0, k.1, k.2, k.3)
}
fn fmt_exp(e: u64) -> String {
    if e == u64::MAX {
        "never".into()
    } else {
        e.to_string()
    }
}
fn fmt_map(m: &BTreeMap<LKey, u64>) -> Vec<String> {
    m.iter().map(|(k, e)| format!("{} -> {}", fmt_key(k), fmt_exp(*e))).collect()
}

/// role of a fact of the from-scratch model at this step (established with the oracle)
fn role_of(orules: &[Rule], ex: &Expected, f: &Fact) -> &'static str {
    let is_base = ex.base.contains_key(f);
    let mut input: BTreeSet<Fact> = ex.base.keys().copied().collect();
    input.remove(f);
    let derivable = least_model(orules, &input, &no_decode).facts.contains(f);
    match (is_base, derivable) {
        (true, false) => "base_fact",
        (true, true) => "base_fact_that_is_also_derived",
        (false, _) => "derived_fact",
    }
}

fn first_diff(exp: &BTreeMap<LKey, u64>, got: &BTreeMap<LKey, u64>) -> Option<(&'static str, LKey)> {
    // a fact filed under another component than the one its predicate belongs to
    for k in got.keys() {
        if !exp.contains_key(k) && exp.keys().any(|x| x.1 == k.1 && x.2 == k.2 && x.3 == k.3) {
            return Some(("fact_in_wrong_component", k.clone()));
        }
    }
    if let Some(k) = got.keys().find(|k| !exp.contains_key(*k)) {
        return Some(("fact_not_in_recomputation", k.clone()));
    }
    if let Some(k) = exp.keys().find(|k| !got.contains_key(*k)) {
        return Some(("fact_of_recomputation_missing", k.clone()));
    }
    if let Some((k, _)) = exp.iter().find(|(k, e)| got[*k] < **e) {
        return Some(("expiry_too_early", k.clone()));
    }
    if let Some((k, _)) = exp.iter().find(|(k, e)| got[*k] > **e) {
        return Some(("expiry_too_late", k.clone()));
    }
    None
}

fn run_history(c: &Case, order_seed: u64, want_trace: bool) -> (Option<Finding>, Stats, Vec<Value>) {
    let mut st = Stats::default();
    let mut trace: Vec<Value> = vec![];
    let dict = Arc::new(RwLock::new(Dictionary::new()));
    let erules = engine_rules(c, &dict);
    let orules = oracle_rules(c);
    let mut order = Rng::new(order_seed);
    let mut state: SdsWithExpiry = SdsWithExpiry::new();
    let mut prev_exp: Option<Expected> = None;
    let mut ever: BTreeSet<Fact> = BTreeSet::new();
    let mut steps_with_derived = 0u64;
    let mut carried_derived = false;
    let mut lifetime_event = false;
    let win_of = |f: &Fact| -> bool { matches!(c.comps[pdecode(f.1).0].kind, Kind::Window(_)) };

    for (i, &t) in c.times.iter().enumerate() {
        let ex = expected_at(c, &orules, t);
        if ex.too_large {
            st.skipped_too_large = true;
            return (None, st, trace);
        }
        let exp_lex = lex_expected(c, &ex.facts);
        let sds = build_sds(c, t, &mut order);

        // ---- observations about the step (for the evidence) ----
        st.add("steps", 1);
        st.max("max_distinct_expiries_in_a_step", ex.thresholds as u64);
        st.max("max_derivation_height", ex.max_height as u64);
        st.max("max_facts_in_a_materialisation", ex.facts.len() as u64);
        let derived: Vec<&Fact> = ex.facts.keys().filter(|f| !ex.base.contains_key(*f)).collect();
        st.add("facts_compared", ex.facts.len() as u64);
        st.add("facts.derived", derived.len() as u64);
        if !derived.is_empty() {
            steps_with_derived += 1;
            st.add("steps.with_derived_facts", 1);
        }
        st.add("facts.derived_never_expiring", derived.iter().filter(|f| ex.facts[**f] == u64::MAX).count() as u64);
        st.add("facts.derived_into_window_component", derived.iter().filter(|f| win_of(f)).count() as u64);
        st.add("facts.window_fact_outlived_by_own_derivation", ex.base.iter().filter(|(f, e)| ex.facts[*f] > **e).count() as u64);
        {
            // same (s, local p, o) alive in several windows
            let mut per: BTreeMap<(u32, usize, u32), usize> = BTreeMap::new();
            for f in ex.base.keys().filter(|f| win_of(f)) {
                *per.entry((f.0, pdecode(f.1).1, f.2)).or_insert(0) += 1;
            }
            st.add("facts.triple_alive_in_several_windows", per.values().filter(|&&n| n > 1).count() as u64);
        }
        {
            // derived facts that also have a derivation entirely from shorter-lived facts
            let exps: BTreeSet<u64> = derived.iter().map(|f| ex.facts[*f]).collect();
            let mut n = 0;
            for e in exps {
                let input: BTreeSet<Fact> = ex.base.iter().filter(|(_, &x)| x < e || x == u64::MAX).map(|(f, _)| *f).collect();
                let m = least_model(&orules, &input, &no_decode);
                n += derived.iter().filter(|f| ex.facts[**f] == e && e != u64::MAX && m.facts.contains(*f)).count();
            }
            st.add("facts.derived_with_derivations_of_different_lifetimes", n as u64);
        }
        let window_alive = ex.base.keys().filter(|f| win_of(f)).count();
        match &prev_exp {
            None => st.add("steps.first", 1),
            Some(p) => {
                if !state.values().all(|m| m.is_empty()) {
                    st.add("steps.with_carried_over_state", 1);
                }
                if p.base == ex.base {
                    st.add("steps.nothing_changed", 1);
                }
                if window_alive == 0 && p.base.keys().any(|f| win_of(f)) {
                    st.add("steps.everything_expired", 1);
                }
                for (f, e) in &ex.base {
                    if let Some(pe) = p.base.get(f) {
                        if e > pe {
                            st.add("renewals.window_fact_renewed_while_alive", 1);
                            let (w, _) = pdecode(f.1);
                            if let Kind::Window(a) = c.comps[w].kind {
                                if e - a + 1 == *pe {
                                    st.add("renewals.arrived_one_tick_before_expiry", 1);
                                }
                            }
                        }
                    } else if p.base.is_empty() || !p.base.contains_key(f) {
                        if ever.contains(f) {
                            st.add("renewals.window_fact_back_after_expiry", 1);
                        }
                    }
                }
                for f in &derived {
                    match p.facts.get(*f) {
                        Some(pe) => {
                            if !p.base.contains_key(*f) {
                                carried_derived = true;
                                st.add("facts.derived_carried_over", 1);
                            }
                            if ex.facts[*f] > *pe {
                                lifetime_event = true;
                                st.add("facts.derived_expiry_extended", 1);
                            }
                        }
                        None => {
                            if ever.contains(*f) {
                                st.add("facts.derived_again_after_expiry", 1);
                            }
                        }
                    }
                }
                let gone = p.facts.keys().filter(|f| !p.base.contains_key(*f) && !ex.facts.contains_key(*f)).count();
                if gone > 0 {
                    lifetime_event = true;
                    st.add("facts.derived_expired_between_steps", gone as u64);
                }
            }
        }
        ever.extend(ex.facts.keys().copied());

        // ---- the code under test ----
        st.evals += 1;
        let (r_rules, r_sds, r_state, r_dict) = (&erules, &sds, &state, &dict);
        let got_state = match guard(|| incremental_sds_plus(r_rules, r_sds, r_state, r_dict, t)) {
            Ok(s) => s,
            Err(e) => {
                let f = Finding { sig: json!({"kind": "panic", "api": "incremental_sds_plus", "site": panic_site(&e)}), detail: json!({"step": i, "time": t, "panic": e}) };
                return (Some(f), st, trace);
            }
        };
        let got = match decode_state(&got_state, &dict) {
            Ok(g) => g,
            Err(e) => {
                let f = Finding { sig: json!({"kind": "state_not_decodable", "what": e}), detail: json!({"step": i, "time": t}) };
                return (Some(f), st, trace);
            }
        };
        if want_trace {
            trace.push(json!({"step": i, "time": t, "alive_base": fmt_map(&lex_expected(c, &ex.base)), "expected": fmt_map(&exp_lex), "incremental": fmt_map(&got)}));
        }

        if let Some((kind, key)) = first_diff(&exp_lex, &got) {
            // ---- attribution: established by re-running, not guessed ----
            let fresh_ok = match guard(|| incremental_sds_plus(r_rules, r_sds, &SdsWithExpiry::new(), r_dict, t)) {
                Ok(s) => decode_state(&s, &dict).map(|g| g == exp_lex).unwrap_or(false),
                Err(_) => false,
            };
            let naive_ok = match guard(|| naive_sds_plus(r_rules, r_sds, r_dict, t)) {
                Ok(b) => decode_buckets(&b, &dict).map(|(s, _)| s == stripped_expected(c, &ex.facts)).unwrap_or(false),
                Err(_) => false,
            };
            let ofact: Option<Fact> = ex.facts.keys().find(|f| lkey_of(c, f) == key).copied();
            let prev_fact_exp: Option<u64> = prev_exp.as_ref().and_then(|p| p.facts.iter().find(|(f, _)| lkey_of(c, f) == key).map(|(_, e)| *e));
            let role = match &ofact {
                Some(f) => role_of(&orules, &ex, f),
                None => "not_entailed",
            };
            let mut sig = json!({
                "kind": kind,
                "fact": role,
                "correct_when_started_from_empty_state": fresh_ok,
                "naive_sds_plus_correct": naive_ok,
            });
            let mut more = json!({});
            match kind {
                "fact_not_in_recomputation" | "fact_in_wrong_component" => {
                    let g = got[&key];
                    let why = if g <= t {
                        "stored_expiry_not_after_evaluation_time"
                    } else if prev_fact_exp.is_some() {
                        "was_in_previous_materialisation"
                    } else if ever.iter().any(|f| lkey_of(c, f) == key) {
                        "was_in_an_earlier_materialisation"
                    } else {
                        "never_entailed"
                    };
                    sig["extra_fact"] = json!(why);
                    more = json!({"stored_expiry": fmt_exp(g), "expiry_in_previous_step": prev_fact_exp.map(fmt_exp)});
                }
                "fact_of_recomputation_missing" => {
                    sig["was_in_previous_materialisation"] = json!(prev_fact_exp.is_some());
                    more = json!({"expected_expiry": fmt_exp(exp_lex[&key]), "expiry_in_previous_step": prev_fact_exp.map(fmt_exp)});
                }
                _ => {
                    let g = got[&key];
                    let e = exp_lex[&key];
                    let own = ofact.and_then(|f| ex.base.get(&f).copied());
                    let rel = if Some(g) == prev_fact_exp && prev_fact_exp != Some(e) {
                        "value_of_previous_step"
                    } else if Some(g) == own {
                        "own_window_expiry"
                    } else if g <= t {
                        "not_after_evaluation_time"
                    } else {
                        "other"
                    };
                    sig["stored_expiry_is"] = json!(rel);
                    more = json!({"stored_expiry": fmt_exp(g), "expected_expiry": fmt_exp(e), "expiry_in_previous_step": prev_fact_exp.map(fmt_exp), "own_window_expiry": own.map(fmt_exp)});
                }
            }
            let detail = json!({"step": i, "time": t, "fact": fmt_key(&key), "observation": more,
                "alive_base": fmt_map(&lex_expected(c, &ex.base)), "expected": fmt_map(&exp_lex), "incremental": fmt_map(&got),
                "previous_expected": prev_exp.as_ref().map(|p| fmt_map(&lex_expected(c, &p.facts)))});
            return (Some(Finding { sig, detail }), st, trace);
        }

        // ---- external view of the incremental state ----
        let comps = all_component_iris(&sds);
        match guard(|| sds_with_expiry_to_external(&got_state, r_dict, &comps)) {
            Err(e) => {
                let f = Finding { sig: json!({"kind": "panic", "api": "sds_with_expiry_to_external", "site": panic_site(&e)}), detail: json!({"step": i, "time": t, "panic": e}) };
                return (Some(f), st, trace);
            }
            Ok(b) => {
                st.add("compared.external_views", 1);
                let want = stripped_expected(c, &ex.facts);
                match decode_buckets(&b, &dict) {
                    Ok((s, n)) if s == want && n == want.len() => {}
                    Ok((s, n)) => {
                        let kind = if s == want { "external_view_lists_a_fact_twice" } else { "external_view_differs_from_state" };
                        let f = Finding { sig: json!({"kind": kind}), detail: json!({"step": i, "time": t, "entries": n, "expected": want.iter().map(fmt_key).collect::<Vec<_>>(), "got": s.iter().map(fmt_key).collect::<Vec<_>>()}) };
                        return (Some(f), st, trace);
                    }
                    Err(e) => {
                        let f = Finding { sig: json!({"kind": "external_view_not_decodable", "what": e}), detail: json!({"step": i, "time": t}) };
                        return (Some(f), st, trace);
                    }
                }
            }
        }

        // ---- second opinion: the engine's own recomputation ----
        st.evals += 1;
        match guard(|| naive_sds_plus(r_rules, r_sds, r_dict, t)) {
            Err(e) => {
                let f = Finding { sig: json!({"kind": "panic", "api": "naive_sds_plus", "site": panic_site(&e)}), detail: json!({"step": i, "time": t, "panic": e}) };
                return (Some(f), st, trace);
            }
            Ok(b) => {
                st.add("compared.naive_fact_sets", 1);
                let want = stripped_expected(c, &ex.facts);
                match decode_buckets(&b, &dict) {
                    Ok((s, n)) => {
                        if s != want {
                            let missing: Vec<String> = want.difference(&s).take(4).map(fmt_key).collect();
                            let extra: Vec<String> = s.difference(&want).take(4).map(fmt_key).collect();
                            let kind = if !missing.is_empty() && !extra.is_empty() { "naive_sds_plus_differs_both_ways" } else if !missing.is_empty() { "naive_sds_plus_misses_fact" } else { "naive_sds_plus_has_extra_fact" };
                            let f = Finding { sig: json!({"kind": kind, "incremental_correct": true}), detail: json!({"step": i, "time": t, "missing": missing, "extra": extra}) };
                            return (Some(f), st, trace);
                        }
                        if n != s.len() {
                            let f = Finding { sig: json!({"kind": "naive_sds_plus_lists_a_fact_twice"}), detail: json!({"step": i, "time": t, "entries": n, "distinct": s.len()}) };
                            return (Some(f), st, trace);
                        }
                    }
                    Err(e) => {
                        let f = Finding { sig: json!({"kind": "naive_result_not_decodable", "what": e}), detail: json!({"step": i, "time": t}) };
                        return (Some(f), st, trace);
                    }
                }
            }
        }

        state = got_state;
        prev_exp = Some(ex);
    }
    st.nontrivial = steps_with_derived >= 2 && carried_derived && lifetime_event;
    (None, st, trace)
}

// ----------------------------------------------------------------------------------------
// shrinking a violating history (same signature must persist)
// ----------------------------------------------------------------------------------------

fn rule_safe(r: &ARule) -> bool {
    let mut bound = BTreeSet::new();
    for a in &r.body {
        for t in [&a.s, &a.o] {
            if let PT::V(v) = t {
                bound.insert(*v);
            }
        }
    }
    !r.body.is_empty() && !r.head.is_empty() && r.head.iter().all(|a| [&a.s, &a.o].iter().all(|t| match t {
        PT::V(v) => bound.contains(v),
        PT::E(_) => true,
    }))
}

fn shrink(c: &Case, sig: &Value, order_seed: u64) -> (Case, u32) {
    let key = sig.to_string();
    let still = |x: &Case| -> bool { matches!(run_history(x, order_seed, false).0, Some(f) if f.sig.to_string() == key) };
    let mut cur = c.clone();
    let mut tries = 0u32;
    loop {
        let mut progressed = false;
        let mut cands: Vec<Case> = vec![];
        if cur.linger > 0 {
            let mut x = cur.clone();
            x.linger = 0;
            cands.push(x);
        }
        for i in 0..cur.rules.len() {
            let mut x = cur.clone();
            x.rules.remove(i);
            cands.push(x);
        }
        for i in 0..cur.times.len() {
            if cur.times.len() > 1 {
                let mut x = cur.clone();
                x.times.remove(i);
                cands.push(x);
            }
        }
        for i in 0..cur.items.len() {
            let mut x = cur.clone();
            x.items.remove(i);
            cands.push(x);
        }
        for i in 0..cur.statics.len() {
            let mut x = cur.clone();
            x.statics.remove(i);
            cands.push(x);
        }
        for i in 0..cur.rules.len() {
            for j in 0..cur.rules[i].body.len() {
                let mut x = cur.clone();
                x.rules[i].body.remove(j);
                if rule_safe(&x.rules[i]) {
                    cands.push(x);
                }
            }
            for j in 0..cur.rules[i].head.len() {
                let mut x = cur.clone();
                x.rules[i].head.remove(j);
                if rule_safe(&x.rules[i]) {
                    cands.push(x);
                }
            }
        }
        for x in cands {
            tries += 1;
            if tries > 3000 {
                return (cur, tries);
            }
            if still(&x) {
                cur = x;
                progressed = true;
                break;
            }
        }
        if !progressed {
            return (cur, tries);
        }
    }
}

// ----------------------------------------------------------------------------------------
// generators
// ----------------------------------------------------------------------------------------

struct Gen<'a> {
    r: &'a mut Rng,
    comps: Vec<Comp>,
    windows: Vec<usize>,
    statics: Vec<usize>,
    outputs: Vec<usize>,
    rules: Vec<ARule>,
    features: Vec<String>,
    next_out_local: usize,
    n_ent: usize,
    n_local: usize,
    /// larger scope (thorough tier only): more entities, items and evaluation times
    big: bool,
}

fn v(i: u8) -> PT {
    PT::V(i)
}
fn at(comp: usize, local: usize, s: PT, o: PT) -> Atom {
    Atom { comp, local, s, o }
}

impl<'a> Gen<'a> {
    fn new(r: &'a mut Rng, n_win: usize, big: bool) -> Self {
        let style = r.weighted(&[60, 20, 20]);
        let mut comps = vec![];
        let mut windows = vec![];
        let mut alphas: Vec<u64> = vec![];
        for i in 0..n_win {
            let mut a = r.range(1, 10) as u64;
            if alphas.contains(&a) && r.chance(3, 4) {
                a = r.range(1, 10) as u64;
            }
            alphas.push(a);
            let iri = match style {
                0 => format!("http://w{}/", i),
                1 => format!("http://w/{}", "in/".repeat(i)), // prefix-nested: http://w/, http://w/in/, …
                _ => format!("urn:win{}:", i),
            };
            windows.push(comps.len());
            comps.push(Comp { iri, kind: Kind::Window(a) });
        }
        let mut statics = vec![];
        let n_static = r.weighted(&[45, 50, 5]);
        for i in 0..n_static {
            let iri = match style {
                0 => format!("http://s{}/", i),
                1 => format!("http://w/s{}/", i),
                _ => format!("urn:static{}:", i),
            };
            statics.push(comps.len());
            comps.push(Comp { iri, kind: Kind::Static });
        }
        let mut outputs = vec![];
        let n_out = if r.chance(1, 5) { 2 } else { 1 };
        for i in 0..n_out {
            let iri = match style {
                0 => format!("http://out{}/", i),
                1 => format!("http://w/out{}/", i),
                _ => format!("urn:win0:out{}:", i), // nested under window 0's IRI
            };
            outputs.push(comps.len());
            comps.push(Comp { iri, kind: Kind::Output });
        }
        let n_ent = if big { r.range(3, 5) } else { r.range(2, 4) };
        let n_local = r.range(1, 3);
        Gen { r, comps, windows, statics, outputs, rules: vec![], features: vec![], next_out_local: 0, n_ent, n_local, big }
    }
    fn win(&mut self) -> usize {
        *self.r.pick(&self.windows)
    }
    fn other_win(&mut self, w: usize) -> usize {
        let others: Vec<usize> = self.windows.iter().copied().filter(|x| *x != w).collect();
        if others.is_empty() {
            w
        } else {
            *self.r.pick(&others)
        }
    }
    fn out(&mut self) -> usize {
        *self.r.pick(&self.outputs)
    }
    fn stat(&mut self) -> usize {
        if self.statics.is_empty() {
            let iri = format!("{}static/", if self.comps[0].iri.starts_with("urn:") { "urn:x:" } else { "http://st/" });
            self.statics.push(self.comps.len());
            self.comps.push(Comp { iri, kind: Kind::Static });
        }
        *self.r.pick(&self.statics)
    }
    fn loc(&mut self) -> usize {
        self.r.below(self.n_local)
    }
    fn fresh_out(&mut self) -> (usize, usize) {
        let o = self.out();
        let l = self.next_out_local;
        self.next_out_local += 1;
        (o, l)
    }
    fn push(&mut self, body: Vec<Atom>, head: Vec<Atom>) {
        self.rules.push(ARule { body, head });
    }
    fn xy(&mut self) -> (PT, PT) {
        if self.r.chance(1, 4) {
            (v(1), v(0))
        } else {
            (v(0), v(1))
        }
    }

    fn feature(&mut self, name: &str) {
        self.features.push(name.to_string());
        match name {
            "chain" => {
                let len = self.r.range(1, 4);
                let w = self.win();
                let l = self.loc();
                let mut prev = (w, l);
                for _ in 0..len {
                    let nx = self.fresh_out();
                    let (a, b) = self.xy();
                    self.push(vec![at(prev.0, prev.1, v(0), v(1))], vec![at(nx.0, nx.1, a, b)]);
                    prev = nx;
                }
                if self.r.chance(1, 3) {
                    // derived fact joined with another window
                    let w2 = self.other_win(w);
                    let l2 = self.loc();
                    let nx = self.fresh_out();
                    self.push(vec![at(prev.0, prev.1, v(0), v(1)), at(w2, l2, v(1), v(2))], vec![at(nx.0, nx.1, v(0), v(2))]);
                    self.features.push("join_with_derived".into());
                }
            }
            "join2" => {
                let a = self.win();
                let b = self.other_win(a);
                let (la, lb) = (self.loc(), self.loc());
                let nx = self.fresh_out();
                self.push(vec![at(a, la, v(0), v(1)), at(b, lb, v(1), v(2))], vec![at(nx.0, nx.1, v(0), v(2))]);
                if self.r.coin() {
                    let n2 = self.fresh_out();
                    self.push(vec![at(nx.0, nx.1, v(0), v(1))], vec![at(n2.0, n2.1, v(1), v(0))]);
                }
            }
            "join3" => {
                let a = self.win();
                let b = self.other_win(a);
                let c = self.win();
                let (la, lb, lc) = (self.loc(), self.loc(), self.loc());
                let nx = self.fresh_out();
                self.push(vec![at(a, la, v(0), v(1)), at(b, lb, v(1), v(2)), at(c, lc, v(2), v(3))], vec![at(nx.0, nx.1, v(0), v(3))]);
            }
            "static_join" => {
                let a = self.win();
                let s = self.stat();
                let (la, ls) = (self.loc(), self.loc());
                let nx = self.fresh_out();
                if self.r.coin() {
                    self.push(vec![at(a, la, v(0), v(1)), at(s, ls, v(1), v(2))], vec![at(nx.0, nx.1, v(0), v(2))]);
                } else {
                    self.push(vec![at(s, ls, v(0), v(1)), at(a, la, v(1), v(2))], vec![at(nx.0, nx.1, v(0), v(2))]);
                }
            }
            "static_only" => {
                let s = self.stat();
                let ls = self.loc();
                let nx = self.fresh_out();
                self.push(vec![at(s, ls, v(0), v(1))], vec![at(nx.0, nx.1, v(1), v(0))]);
                if self.r.coin() {
                    let a = self.win();
                    let la = self.loc();
                    let n2 = self.fresh_out();
                    self.push(vec![at(nx.0, nx.1, v(0), v(1)), at(a, la, v(1), v(2))], vec![at(n2.0, n2.1, v(0), v(2))]);
                }
            }
            "transitive_closure" => {
                let a = self.win();
                let la = self.loc();
                let nx = self.fresh_out();
                self.push(vec![at(a, la, v(0), v(1))], vec![at(nx.0, nx.1, v(0), v(1))]);
                match self.r.below(3) {
                    0 => self.push(vec![at(nx.0, nx.1, v(0), v(1)), at(nx.0, nx.1, v(1), v(2))], vec![at(nx.0, nx.1, v(0), v(2))]),
                    1 => self.push(vec![at(nx.0, nx.1, v(0), v(1)), at(a, la, v(1), v(2))], vec![at(nx.0, nx.1, v(0), v(2))]),
                    _ => {
                        let b = self.other_win(a);
                        let lb = self.loc();
                        self.push(vec![at(nx.0, nx.1, v(0), v(1)), at(b, lb, v(1), v(2))], vec![at(nx.0, nx.1, v(0), v(2))]);
                    }
                }
            }
            "two_derivations" => {
                let a = self.win();
                let b = self.other_win(a);
                let la = self.loc();
                let lb = if b == a { (la + 1) % self.n_local.max(2) } else { self.loc() };
                if lb >= self.n_local {
                    self.n_local = lb + 1;
                }
                let nx = self.fresh_out();
                self.push(vec![at(a, la, v(0), v(1))], vec![at(nx.0, nx.1, v(0), v(1))]);
                self.push(vec![at(b, lb, v(0), v(1))], vec![at(nx.0, nx.1, v(0), v(1))]);
                if self.r.coin() {
                    let n2 = self.fresh_out();
                    self.push(vec![at(nx.0, nx.1, v(0), v(1))], vec![at(n2.0, n2.1, v(1), v(0))]);
                }
            }
            "into_window" => {
                let a = self.win();
                let b = self.other_win(a);
                let la = self.loc();
                let lb = if b == a { (la + 1) % self.n_local.max(2) } else { self.loc() };
                if lb >= self.n_local {
                    self.n_local = lb + 1;
                }
                self.push(vec![at(a, la, v(0), v(1))], vec![at(b, lb, v(0), v(1))]);
                let nx = self.fresh_out();
                self.push(vec![at(b, lb, v(0), v(1))], vec![at(nx.0, nx.1, v(0), v(1))]);
            }
            "cycle" => {
                let a = self.win();
                let la = self.loc();
                let p = self.fresh_out();
                let q = self.fresh_out();
                self.push(vec![at(a, la, v(0), v(1))], vec![at(p.0, p.1, v(0), v(1))]);
                self.push(vec![at(p.0, p.1, v(0), v(1))], vec![at(q.0, q.1, v(1), v(0))]);
                self.push(vec![at(q.0, q.1, v(0), v(1))], vec![at(p.0, p.1, v(1), v(0))]);
                if self.r.coin() {
                    let b = self.other_win(a);
                    let lb = self.loc();
                    self.push(vec![at(b, lb, v(0), v(1))], vec![at(q.0, q.1, v(0), v(1))]);
                }
            }
            "multi_head" => {
                let a = self.win();
                let b = self.other_win(a);
                let (la, lb) = (self.loc(), self.loc());
                let n1 = self.fresh_out();
                let n2 = self.fresh_out();
                self.push(vec![at(a, la, v(0), v(1)), at(b, lb, v(1), v(2))], vec![at(n1.0, n1.1, v(0), v(2)), at(n2.0, n2.1, v(2), v(0))]);
            }
            "constants" => {
                let a = self.win();
                let la = self.loc();
                let n1 = self.fresh_out();
                let e1 = self.r.below(self.n_ent);
                let e2 = self.r.below(self.n_ent);
                self.push(vec![at(a, la, v(0), PT::E(e1))], vec![at(n1.0, n1.1, v(0), PT::E(e2))]);
                if self.r.coin() {
                    let n2 = self.fresh_out();
                    self.push(vec![at(a, la, v(0), v(0))], vec![at(n2.0, n2.1, v(0), v(0))]);
                }
                if self.r.coin() {
                    // every matching fact of either window supports the same constant fact
                    let b = self.other_win(a);
                    let lb = self.loc();
                    self.push(vec![at(b, lb, v(0), v(1))], vec![at(n1.0, n1.1, PT::E(e1), PT::E(e2))]);
                }
            }
            "unregistered_intermediate" => {
                // W_a:p(X,Y) => tmp:q(X,Y) ; tmp:q(X,Y) , W_b:r(Y,Z) => out:s(X,Z)
                let hid = self.comps.len();
                self.comps.push(Comp { iri: "urn:tmp:".into(), kind: Kind::Unregistered });
                let a = self.win();
                let b = self.other_win(a);
                let (la, lb) = (self.loc(), self.loc());
                let nx = self.fresh_out();
                self.push(vec![at(a, la, v(0), v(1))], vec![at(hid, 0, v(0), v(1))]);
                self.push(vec![at(hid, 0, v(0), v(1)), at(b, lb, v(1), v(2))], vec![at(nx.0, nx.1, v(0), v(2))]);
            }
            _ => unreachable!(),
        }
    }

    fn random_rule(&mut self) {
        // predicates already in use, so that rules connect
        let mut used: Vec<(usize, usize)> = vec![];
        for r in &self.rules {
            for a in r.body.iter().chain(r.head.iter()) {
                used.push((a.comp, a.local));
            }
        }
        let np = self.r.weighted(&[35, 50, 15]) + 1;
        let mut body = vec![];
        for _ in 0..np {
            let (comp, local) = if !used.is_empty() && self.r.chance(1, 2) {
                *self.r.pick(&used)
            } else {
                match self.r.weighted(&[70, if self.statics.is_empty() { 0 } else { 15 }, 15]) {
                    0 => (self.win(), self.loc()),
                    1 => (self.stat(), self.loc()),
                    _ => (self.out(), self.r.below(self.next_out_local + 1)),
                }
            };
            let t = |g: &mut Self| -> PT {
                if g.r.chance(4, 5) {
                    v(g.r.below(3) as u8)
                } else {
                    PT::E(g.r.below(g.n_ent))
                }
            };
            let s = t(self);
            let o = t(self);
            body.push(at(comp, local, s, o));
        }
        let bound: Vec<u8> = body.iter().flat_map(|a| [a.s.clone(), a.o.clone()]).filter_map(|t| if let PT::V(x) = t { Some(x) } else { None }).collect();
        let nh = if self.r.chance(1, 6) { 2 } else { 1 };
        let mut head = vec![];
        for _ in 0..nh {
            let (comp, local) = match self.r.weighted(&[70, 22, if self.statics.is_empty() { 0 } else { 8 }]) {
                0 => {
                    let o = self.out();
                    let l = self.r.below(self.next_out_local + 1);
                    if l == self.next_out_local {
                        self.next_out_local += 1;
                    }
                    (o, l)
                }
                1 => (self.win(), self.loc()),
                _ => (self.stat(), self.loc()),
            };
            let t = |g: &mut Self| -> PT {
                if !bound.is_empty() && g.r.chance(6, 7) {
                    v(*g.r.pick(&bound))
                } else {
                    PT::E(g.r.below(g.n_ent))
                }
            };
            let s = t(self);
            let o = t(self);
            head.push(at(comp, local, s, o));
        }
        self.push(body, head);
    }

    /// items, static facts and evaluation times for the rules generated so far
    fn finish(mut self, time_mode_hint: Option<usize>) -> Case {
        let alpha_of = |comps: &Vec<Comp>, w: usize| -> u64 {
            match comps[w].kind {
                Kind::Window(a) => a,
                _ => 0,
            }
        };
        // stream predicates mentioned by the rules
        let mut wpreds: Vec<(usize, usize)> = vec![];
        let mut spreds: Vec<(usize, usize)> = vec![];
        for r in &self.rules {
            for a in r.body.iter().chain(r.head.iter()) {
                match self.comps[a.comp].kind {
                    Kind::Window(_) => wpreds.push((a.comp, a.local)),
                    Kind::Static => spreds.push((a.comp, a.local)),
                    Kind::Output | Kind::Unregistered => {}
                }
            }
        }
        if wpreds.is_empty() {
            let w = self.win();
            wpreds.push((w, 0));
        }
        let horizon = self.r.range(5, 28) as u64;
        let n_items = if self.big { self.r.range(8, 24) } else { self.r.range(2, 14) };
        let mut items: Vec<Item> = vec![];
        for _ in 0..n_items {
            let (w, l) = if self.r.chance(9, 10) { *self.r.pick(&wpreds) } else { (self.win(), self.loc()) };
            items.push(Item { win: w, t: self.r.below(horizon as usize + 1) as u64, s: self.r.below(self.n_ent), p: l, o: self.r.below(self.n_ent) });
        }
        // renewals placed relative to the expiry of an earlier arrival
        if self.r.chance(3, 5) {
            for _ in 0..self.r.range(1, 4) {
                let src = self.r.pick(&items).clone();
                let a = alpha_of(&self.comps, src.win);
                let exp = src.t + a;
                let t2 = match self.r.weighted(&[45, 15, 15, 15, 10]) {
                    0 => exp - 1,         // just before expiry
                    1 => exp,             // exactly when it expires
                    2 => exp + 1,         // gap of one tick
                    3 => src.t + 1,       // early renewal
                    _ => exp + 2,
                };
                if t2 > src.t {
                    items.push(Item { t: t2, ..src });
                    self.features.push("renewal".into());
                }
            }
        }
        // the same triple in several windows
        if self.windows.len() > 1 && self.r.chance(1, 3) {
            for _ in 0..self.r.range(1, 2) {
                let src = self.r.pick(&items).clone();
                let w2 = self.other_win(src.win);
                let dt = self.r.below(4) as u64;
                items.push(Item { win: w2, t: src.t + dt, ..src });
            }
            self.features.push("same_triple_in_several_windows".into());
        }
        let mut statics = vec![];
        if !self.statics.is_empty() {
            for _ in 0..self.r.range(1, 4) {
                let (g, l) = if !spreds.is_empty() && self.r.chance(9, 10) { *self.r.pick(&spreds) } else { (*self.r.pick(&self.statics), self.loc()) };
                let f = (g, self.r.below(self.n_ent), l, self.r.below(self.n_ent));
                if !statics.contains(&f) {
                    statics.push(f);
                }
            }
        }
        // evaluation times
        let mut cand: BTreeSet<u64> = BTreeSet::new();
        let mut last_expiry = 0;
        for it in &items {
            let a = alpha_of(&self.comps, it.win);
            cand.insert(it.t);
            cand.insert(it.t + a);
            cand.insert(it.t + a - 1);
            cand.insert(it.t + a + 1);
            last_expiry = last_expiry.max(it.t + a);
        }
        let cand: Vec<u64> = cand.into_iter().collect();
        let n = if self.big { self.r.range(8, 18) } else { self.r.range(3, 12) };
        let mode = time_mode_hint.unwrap_or_else(|| self.r.weighted(&[50, 25, 25]));
        let mut times: BTreeSet<u64> = BTreeSet::new();
        let time_mode = match mode {
            0 => {
                for _ in 0..n {
                    times.insert(*self.r.pick(&cand));
                }
                "event_times"
            }
            1 => {
                let start = *self.r.pick(&cand);
                let start = start.saturating_sub(self.r.below(3) as u64);
                for i in 0..n as u64 {
                    times.insert(start + i);
                }
                "dense_run"
            }
            _ => {
                for _ in 0..n {
                    if self.r.coin() {
                        times.insert(*self.r.pick(&cand));
                    } else {
                        times.insert(self.r.below(last_expiry as usize + 3) as u64);
                    }
                }
                "mixed"
            }
        };
        if self.r.chance(3, 5) {
            let t = last_expiry + self.r.below(3) as u64;
            times.insert(t);
            if self.r.chance(1, 3) {
                times.insert(t + 1 + self.r.below(3) as u64);
            }
        }
        let linger = if self.r.chance(1, 5) { self.r.range(1, 3) as u64 } else { 0 };
        Case { comps: self.comps, rules: self.rules, items, statics, times: times.into_iter().collect(), linger, features: self.features, time_mode: time_mode.to_string() }
    }
}

const FEATURES: [&str; 11] = ["chain", "join2", "join3", "static_join", "static_only", "transitive_closure", "two_derivations", "into_window", "cycle", "multi_head", "constants"];

fn gen_scenario(r: &mut Rng, k: u64, big: bool) -> Case {
    let n_win = r.weighted(&[10, 50, 35, 5]) + 1;
    let mut g = Gen::new(r, n_win, big);
    // every feature is visited round-robin by k, plus random companions
    let first = FEATURES[(k % FEATURES.len() as u64) as usize];
    g.feature(first);
    for _ in 0..g.r.weighted(&[40, 40, 20]) {
        let f = *g.r.pick(&FEATURES);
        g.feature(f);
    }
    if g.r.chance(1, 4) {
        g.random_rule();
        g.features.push("random_rule".into());
    }
    g.finish(None)
}

fn gen_probe(r: &mut Rng) -> Case {
    let n_win = r.weighted(&[10, 60, 30]) + 1;
    let mut g = Gen::new(r, n_win, false);
    g.feature("unregistered_intermediate");
    if g.r.coin() {
        let f = *g.r.pick(&FEATURES);
        g.feature(f);
    }
    g.finish(None)
}

fn gen_random(r: &mut Rng, big: bool) -> Case {
    let n_win = r.weighted(&[15, 45, 35, 5]) + 1;
    let mut g = Gen::new(r, n_win, big);
    if g.r.chance(1, 3) {
        let f = *g.r.pick(&FEATURES);
        g.feature(f);
    }
    for _ in 0..g.r.range(1, 5) {
        g.random_rule();
    }
    g.features.push("random_rules".into());
    g.finish(None)
}

/// exhaustive sub-space: two one-triple streams, every arrival pattern over 5 time points
const EXH_TOTAL: u64 = 32 * 32 * 4 * 3;
fn gen_exhaustive(k: u64) -> Case {
    let mask_a = k % 32;
    let mask_b = (k / 32) % 32;
    let variant = (k / 1024) % 4;
    let grid = (k / 4096) % 3;
    let comps = vec![
        Comp { iri: "http://a/".into(), kind: Kind::Window(2) },
        Comp { iri: "http://b/".into(), kind: Kind::Window(3) },
        Comp { iri: "http://out/".into(), kind: Kind::Output },
    ];
    let (a, b, o) = (0usize, 1usize, 2usize);
    let mut items = vec![];
    for t in 0..5u64 {
        if mask_a >> t & 1 == 1 {
            items.push(Item { win: a, t, s: 0, p: 0, o: 1 });
        }
        if mask_b >> t & 1 == 1 {
            items.push(Item { win: b, t, s: 1, p: 1, o: 2 });
        }
    }
    let rules = match variant {
        0 => vec![
            ARule { body: vec![at(a, 0, v(0), v(1)), at(b, 1, v(1), v(2))], head: vec![at(o, 0, v(0), v(2))] },
            ARule { body: vec![at(o, 0, v(0), v(1))], head: vec![at(o, 1, v(1), v(0))] },
        ],
        1 => vec![
            ARule { body: vec![at(a, 0, v(0), v(1))], head: vec![at(o, 0, PT::E(0), PT::E(0))] },
            ARule { body: vec![at(b, 1, v(0), v(1))], head: vec![at(o, 0, PT::E(0), PT::E(0))] },
            ARule { body: vec![at(o, 0, v(0), v(1))], head: vec![at(o, 1, v(0), v(1))] },
        ],
        2 => vec![
            ARule { body: vec![at(a, 0, v(0), v(1))], head: vec![at(b, 1, v(1), PT::E(2))] },
            ARule { body: vec![at(b, 1, v(0), v(1))], head: vec![at(o, 0, v(0), v(1))] },
        ],
        _ => vec![
            ARule { body: vec![at(a, 0, v(0), v(1))], head: vec![at(o, 0, v(0), v(1))] },
            ARule { body: vec![at(o, 0, v(0), v(1)), at(b, 1, v(1), v(2))], head: vec![at(o, 0, v(0), v(2))] },
            ARule { body: vec![at(o, 0, v(0), v(1))], head: vec![at(o, 1, v(1), v(0))] },
            ARule { body: vec![at(o, 1, v(0), v(1))], head: vec![at(o, 0, v(1), v(0))] },
        ],
    };
    let times: Vec<u64> = match grid {
        0 => (0..=8).collect(),
        1 => vec![0, 2, 4, 6, 8],
        _ => vec![1, 2, 5, 6, 7],
    };
    Case { comps, rules, items, statics: vec![], times, linger: 0, features: vec![format!("exhaustive_rule_set_{}", variant)], time_mode: format!("grid_{}", grid) }
}

// ----------------------------------------------------------------------------------------
// driver
// ----------------------------------------------------------------------------------------

thread_local! {
    static SHRUNK: std::cell::RefCell<BTreeSet<String>> = std::cell::RefCell::new(BTreeSet::new());
}

fn handle(ctx: &mut Ctx, c: &Case, order_seed: u64, probe: bool) {
    let cj = case_json(c);
    let (finding, st, _) = run_history(c, order_seed, false);
    ctx.add_evals(st.evals);
    if probe {
        // informational only: rules using a predicate prefix that is not a component of the SDS are
        // outside the quantifier of C12 ("rule sets over window-annotated predicates")
        ctx.count("outside_quantifier.histories_with_unregistered_intermediate_predicate", 1);
        if let Some(f) = finding {
            ctx.count(&format!("outside_quantifier.incremental_differs_from_recomputation.{}", f.sig["kind"].as_str().unwrap_or("?")), 1);
            if ctx.wants_sample() {
                let (small, _) = shrink(c, &f.sig, order_seed);
                let (f2, _, _) = run_history(&small, order_seed, false);
                ctx.sample(json!({"note": "outside the quantifier of C12, not a violation", "signature": f.sig, "shrunk_history": case_json(&small), "failing_step": f2.map(|x| x.detail)}));
            }
        }
        return;
    }
    for (k, n) in &st.n {
        ctx.count(k, *n);
    }
    for (k, n) in &st.mx {
        ctx.max(k, *n);
    }
    ctx.max("max_evaluation_steps_in_a_history", c.times.len() as u64);
    ctx.max("max_rules_in_a_history", c.rules.len() as u64);
    ctx.count(&format!("histories.windows_{}", c.comps.iter().filter(|k| matches!(k.kind, Kind::Window(_))).count()), 1);
    if c.comps.iter().any(|k| k.kind == Kind::Static) {
        ctx.count("histories.with_static_graph", 1);
    }
    if c.linger > 0 {
        ctx.count("histories.content_still_lists_expired_entries", 1);
    }
    if c.comps.iter().any(|a| c.comps.iter().any(|b| a.iri != b.iri && b.iri.starts_with(&a.iri))) {
        ctx.count("histories.prefix_nested_component_iris", 1);
    }
    for f in &c.features {
        ctx.note("rule_and_history_features", f);
        ctx.count(&format!("feature.{}", f), 1);
    }
    ctx.note("time_modes", &c.time_mode);
    if st.skipped_too_large {
        ctx.count("histories.skipped_model_too_large_for_oracle", 1);
        return;
    }
    if st.nontrivial {
        ctx.nontrivial(hash_str(&cj.to_string()));
    }
    if ctx.wants_sample() && st.nontrivial {
        ctx.sample(json!({"history": cj, "steps": st.n.get("steps"), "derived_facts_compared": st.n.get("facts.derived")}));
    }
    if let Some(f) = finding {
        // shrink only the first witness of a signature (the runtime keeps one per signature anyway)
        let first_of_its_kind = SHRUNK.with(|s| s.borrow_mut().insert(f.sig.to_string()));
        if !first_of_its_kind {
            ctx.violation(f.sig, json!({"history": cj, "first_failing_step": f.detail}));
            return;
        }
        let (small, tries) = shrink(c, &f.sig, order_seed);
        let (f2, _, trace) = run_history(&small, order_seed, true);
        let small_detail = f2.map(|x| x.detail);
        ctx.violation(f.sig, json!({"history": cj, "first_failing_step": f.detail, "shrunk_history": case_json(&small), "shrunk_failing_step": small_detail, "shrunk_trace": trace, "shrink_attempts": tries}));
    }
}

fn run(ctx: &mut Ctx) {
    ctx.phase("exhaustive_small", EXH_TOTAL);
    let mut complete = true;
    while let Some(k) = ctx.next_case() {
        if !ctx.within(0.25) {
            ctx.count("exhaustive_small.stopped_by_budget_share", 1);
            complete = false;
            break;
        }
        let c = gen_exhaustive(k);
        handle(ctx, &c, k, false);
    }
    if complete && !ctx.replaying() {
        ctx.count("exhaustive_small.shards_that_enumerated_their_whole_share", 1);
    }

    probe_phase(ctx);

    let thorough = ctx.thorough();
    ctx.phase("scenarios", ctx.by_tier(10_000, 500_000));
    while let Some(k) = ctx.next_case() {
        if !ctx.within(0.6) {
            ctx.count("scenarios.stopped_by_budget_share", 1);
            break;
        }
        let mut r = ctx.rng(k);
        let big = thorough && k % 3 == 0;
        if big {
            ctx.count("histories.larger_scope", 1);
        }
        let c = gen_scenario(&mut r, k, big);
        handle(ctx, &c, r.next_u64(), false);
    }

    ctx.phase("random", ctx.by_tier(10_000, 500_000));
    while let Some(k) = ctx.next_case() {
        let mut r = ctx.rng(k);
        let big = thorough && k % 3 == 0;
        if big {
            ctx.count("histories.larger_scope", 1);
        }
        let c = gen_random(&mut r, big);
        handle(ctx, &c, r.next_u64(), false);
    }
}

fn probe_phase(ctx: &mut Ctx) {
    ctx.phase("outside_quantifier_probe", ctx.by_tier(400, 4_000));
    while let Some(k) = ctx.next_case() {
        let mut r = ctx.rng(k);
        let c = gen_probe(&mut r);
        handle(ctx, &c, r.next_u64(), true);
    }
}

fn main() {
    let mut spec = Spec::new("C12", "exploration", RULE);
    spec.assumptions = &[
        "rules are positive (no negation, no filters): semi_naive_with_initial_tags_and_delta drops rules with negative premises, and negation is not monotone in time",
        "every predicate of every rule and item is annotated with a component IRI of the SDS (window, static graph or output); local names never contain a component IRI suffix, so the annotation is unambiguous also for prefix-nested IRIs",
        "static graphs do not change during a history; evaluation times are strictly increasing; one dictionary per history (as RSPEngine does)",
        "histories are window-consistent: a window content lists a triple once with its latest arrival <= T; in 1/5 of the histories it still lists entries up to 3 ticks after their expiry, which translate_sds_to_datalog is documented to drop",
        "oracle: M-DATALOG least model + threshold sweep; histories whose model exceeds 90 facts are skipped and counted",
    ];
    spec.quick_budget_s = 45;
    spec.thorough_budget_s = 540;
    kvcore::run(spec, run);
}
