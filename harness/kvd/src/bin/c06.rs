//! C06 — Probabilities attached to derived facts equal their possible-worlds probability.
//!
//! Events: the `(facts, TagStore)` pair returned by `Reasoner::infer_new_facts_with_provenance`
//! and `Provenance::recover_probability` of the tag of every fact in the store afterwards,
//! for `DnfWmcProvenance`, `SddProvenance`, `MinMaxProbability`, `BooleanProvenance`.
//!
//! Oracle (M-WORLDS): enumerate all 2^n subsets of the uncertain inputs, run the naive
//! M-DATALOG evaluator (`kvcore::mdatalog::stratified_model`) in each world and remember in
//! which worlds every fact holds.  From that table:
//!   * exact modes  : sum of the weights of the worlds in which the fact holds;
//!   * min-max mode : threshold sweep – the largest theta such that the fact holds in the world
//!                    {inputs with p >= theta};
//!   * Boolean mode : the fact holds in the world {inputs with p > 0};
//!   * DNF tags     : additionally the formula itself is evaluated in every world (through
//!                    `TagStore::seed_triples`) and must be true exactly where the fact holds.
//! Nothing of the oracle uses semiring propagation, deltas, hash joins or the engine's ids.
//!
//! `AddMultProbability` (noisy-or) and `TopKProofs` (truncated proof sets) are approximate
//! by design: they are run for observation counters only and never flagged.

use datalog::reasoning::Reasoner;
use kvcore::mdatalog::{negative_heads_feed_rules, rule_is_safe, stratified_model, Fact};
use kvcore::{guard, hash_str, json, panic_site, Ctx, Rng, Spec, Value};
use shared::provenance::{AddMultProbability, BooleanProvenance, DnfWmcProvenance, MinMaxProbability, Provenance, TopKProofs};
use shared::rule::{FilterCondition, Rule};
use shared::sdd::SddProvenance;
use shared::tag_store::TagStore;
use shared::terms::{Term, TriplePattern};
use shared::triple::Triple;
use std::collections::{BTreeMap, BTreeSet};

const RULE: &str = "generated programs in six families (tc: transitive closure variants over uncertain edges with cycles; diamond: layered and/or gates over shared evidence, ground and with variables; late: a fact with a short weak proof and a long strong proof that arrives rounds later, with consumers downstream; random: 1-4 random rules over 2-3 predicates incl. heads equal to input facts, filters, several conclusions; negation: any of these plus 1-3 rules with negated atoms whose heads feed no rule, half of the later ones siblings of the previous one (same head and variables, other body predicates, so that several negation rules conclude the same fact); zero_one: probabilities from {0, 1/2, 1}) x 2-8 (thorough: 2-12) uncertain inputs plus certain facts x two probability assignments (dyadic k/16 incl. 0 and 1, arbitrary f64) x fresh Reasoner per mode with its own shuffled insertion order. Every fact of store-after-inference U oracle support is one comparison per mode. Non-trivial = at least one derived (non-input) fact whose possible-worlds probability lies strictly between 0 and 1 was compared in both exact modes; distinct by hash of (program, facts, probabilities).";

const TOL: f64 = 1e-9;

// ------------------------------------------------------------------------------------------
// lexical case model

type LF = (String, String, String);

#[derive(Clone, Debug, PartialEq, Eq, Hash, PartialOrd, Ord)]
enum PT {
    V(String),
    C(String),
}
type Pat = (PT, PT, PT);

fn v(s: &str) -> PT {
    PT::V(s.to_string())
}
fn k(s: &str) -> PT {
    PT::C(s.to_string())
}
fn pat(s: PT, p: &str, o: PT) -> Pat {
    (s, k(p), o)
}

#[derive(Clone, Debug, PartialEq, Eq)]
struct LRule {
    pos: Vec<Pat>,
    neg: Vec<Pat>,
    /// (variable, operator, variable) – only var/var "=" and "!=" are generated
    filters: Vec<(String, String, String)>,
    head: Vec<Pat>,
}

fn rule(pos: Vec<Pat>, head: Vec<Pat>) -> LRule {
    LRule { pos, neg: vec![], filters: vec![], head }
}

#[derive(Clone, Debug)]
struct Inst {
    family: String,
    certain: Vec<LF>,
    uncertain: Vec<LF>,
    probs: Vec<f64>,
    rules: Vec<LRule>,
}

fn lf(s: &str, p: &str, o: &str) -> LF {
    (s.to_string(), p.to_string(), o.to_string())
}
fn lf_str(f: &LF) -> String {
    format!("{} {} {}", f.0, f.1, f.2)
}
fn pt_str(t: &PT) -> String {
    match t {
        PT::V(x) => format!("?{}", x),
        PT::C(c) => c.clone(),
    }
}
fn pat_str(p: &Pat) -> String {
    format!("{} {} {}", pt_str(&p.0), pt_str(&p.1), pt_str(&p.2))
}
fn rule_str(r: &LRule) -> String {
    let mut body: Vec<String> = r.pos.iter().map(pat_str).collect();
    body.extend(r.neg.iter().map(|p| format!("NOT {}", pat_str(p))));
    body.extend(r.filters.iter().map(|f| format!("FILTER(?{} {} ?{})", f.0, f.1, f.2)));
    format!("{} => {}", body.join(" , "), r.head.iter().map(pat_str).collect::<Vec<_>>().join(" , "))
}
fn inst_json(i: &Inst) -> Value {
    json!({
        "family": i.family,
        "certain_facts": i.certain.iter().map(lf_str).collect::<Vec<_>>(),
        "uncertain_facts": i.uncertain.iter().zip(&i.probs).map(|(f, p)| format!("{} @ {}", lf_str(f), p)).collect::<Vec<_>>(),
        "rules": i.rules.iter().map(rule_str).collect::<Vec<_>>(),
    })
}

/// Build `shared::rule::Rule`s with the given constant encoder.
fn encode_rules(rules: &[LRule], enc: &mut dyn FnMut(&str) -> u32) -> Vec<Rule> {
    let t = |x: &PT, enc: &mut dyn FnMut(&str) -> u32| -> Term {
        match x {
            PT::V(n) => Term::Variable(n.clone()),
            PT::C(c) => Term::Constant(enc(c)),
        }
    };
    let mut out = vec![];
    for r in rules {
        let tp = |p: &Pat, enc: &mut dyn FnMut(&str) -> u32| -> TriplePattern { (t(&p.0, enc), t(&p.1, enc), t(&p.2, enc)) };
        out.push(Rule {
            premise: r.pos.iter().map(|p| tp(p, enc)).collect(),
            negative_premise: r.neg.iter().map(|p| tp(p, enc)).collect(),
            filters: r.filters.iter().map(|f| FilterCondition { variable: f.0.clone(), operator: f.1.clone(), value: f.2.clone() }).collect(),
            conclusion: r.head.iter().map(|p| tp(p, enc)).collect(),
        });
    }
    out
}

// ------------------------------------------------------------------------------------------
// M-WORLDS

struct Worlds {
    n: usize,
    facts: Vec<LF>,
    idx: BTreeMap<LF, usize>,
    /// holds[f] = bitset over world masks
    holds: Vec<Vec<u64>>,
    /// per world: fact index -> first naive round at which the fact is present
    heights: Vec<BTreeMap<usize, u32>>,
    outside_domain: bool,
    positive: bool,
    inputs: BTreeSet<LF>,
}

impl Worlds {
    fn holds(&self, f: usize, mask: usize) -> bool {
        self.holds[f][mask >> 6] >> (mask & 63) & 1 == 1
    }
    fn holds_lf(&self, f: &LF, mask: usize) -> bool {
        match self.idx.get(f) {
            Some(&i) => self.holds(i, mask),
            None => false,
        }
    }
    fn prob(&self, f: usize, w: &[f64]) -> f64 {
        let mut s = 0.0;
        for (mask, wm) in w.iter().enumerate() {
            if self.holds(f, mask) {
                s += *wm;
            }
        }
        s
    }
    /// subset-minimal worlds in which f holds (meaningful for positive programs: monotone)
    fn minimal_proofs(&self, f: usize) -> Vec<usize> {
        let mut out = vec![];
        for mask in 0..(1usize << self.n) {
            if !self.holds(f, mask) {
                continue;
            }
            let mut minimal = true;
            for i in 0..self.n {
                if mask >> i & 1 == 1 && self.holds(f, mask & !(1 << i)) {
                    minimal = false;
                    break;
                }
            }
            if minimal {
                out.push(mask);
            }
        }
        out
    }
}

fn world_weights(p: &[f64]) -> Vec<f64> {
    let n = p.len();
    let mut w = Vec::with_capacity(1 << n);
    for mask in 0..(1usize << n) {
        let mut x = 1.0f64;
        for (i, pi) in p.iter().enumerate() {
            x *= if mask >> i & 1 == 1 { *pi } else { 1.0 - *pi };
        }
        w.push(x);
    }
    w
}

fn worlds(inst: &Inst) -> Worlds {
    // own dictionary: ids in sorted order of the strings of the case
    let mut names: BTreeSet<String> = BTreeSet::new();
    for f in inst.certain.iter().chain(inst.uncertain.iter()) {
        names.insert(f.0.clone());
        names.insert(f.1.clone());
        names.insert(f.2.clone());
    }
    for r in &inst.rules {
        for p in r.pos.iter().chain(r.neg.iter()).chain(r.head.iter()) {
            for t in [&p.0, &p.1, &p.2] {
                if let PT::C(c) = t {
                    names.insert(c.clone());
                }
            }
        }
    }
    let names: Vec<String> = names.into_iter().collect();
    let ids: BTreeMap<String, u32> = names.iter().enumerate().map(|(i, s)| (s.clone(), i as u32 + 1)).collect();
    let mut enc = |s: &str| -> u32 { ids[s] };
    let rules = encode_rules(&inst.rules, &mut enc);
    let decode = |id: u32| -> Option<String> { names.get(id as usize - 1).cloned() };
    let ef = |f: &LF| -> Fact { (ids[&f.0], ids[&f.1], ids[&f.2]) };
    let df = |f: &Fact| -> LF { (names[f.0 as usize - 1].clone(), names[f.1 as usize - 1].clone(), names[f.2 as usize - 1].clone()) };
    let n = inst.uncertain.len();
    let words = ((1usize << n) + 63) / 64;
    let mut w = Worlds {
        n,
        facts: vec![],
        idx: BTreeMap::new(),
        holds: vec![],
        heights: Vec::with_capacity(1 << n),
        outside_domain: false,
        positive: inst.rules.iter().all(|r| r.neg.is_empty()),
        inputs: inst.certain.iter().chain(inst.uncertain.iter()).cloned().collect(),
    };
    let certain: BTreeSet<Fact> = inst.certain.iter().map(ef).collect();
    let unc: Vec<Fact> = inst.uncertain.iter().map(ef).collect();
    for mask in 0..(1usize << n) {
        let mut input = certain.clone();
        for (i, u) in unc.iter().enumerate() {
            if mask >> i & 1 == 1 {
                input.insert(*u);
            }
        }
        let m = stratified_model(&rules, &input, &decode);
        if m.outside_domain {
            w.outside_domain = true;
        }
        let mut hm = BTreeMap::new();
        for f in &m.facts {
            let l = df(f);
            let fi = match w.idx.get(&l) {
                Some(&i) => i,
                None => {
                    let i = w.facts.len();
                    w.facts.push(l.clone());
                    w.idx.insert(l, i);
                    w.holds.push(vec![0u64; words]);
                    i
                }
            };
            w.holds[fi][mask >> 6] |= 1u64 << (mask & 63);
            hm.insert(fi, *m.height.get(f).unwrap_or(&0));
        }
        w.heights.push(hm);
    }
    w
}

// ------------------------------------------------------------------------------------------
// the engine

#[derive(Clone, Copy, PartialEq, Eq, Debug, PartialOrd, Ord)]
enum Mode {
    Dnf,
    Sdd,
    MinMax,
    Bool,
}
impl Mode {
    fn name(self) -> &'static str {
        match self {
            Mode::Dnf => "dnf_wmc",
            Mode::Sdd => "sdd",
            Mode::MinMax => "minmax",
            Mode::Bool => "boolean",
        }
    }
}

struct Out {
    probs: BTreeMap<LF, f64>,
    returned: Vec<LF>,
    before: BTreeSet<LF>,
    explicit_tags: usize,
    /// first disagreement between TagStore::encode_as_rdf_star and recover_probability
    export_problem: Option<Value>,
    exported: usize,
}

struct Built {
    re: Reasoner,
}

fn build(inst: &Inst, order: &mut Rng) -> Built {
    let mut re = Reasoner::new();
    let mut items: Vec<(usize, bool)> = (0..inst.certain.len()).map(|i| (i, false)).chain((0..inst.uncertain.len()).map(|i| (i, true))).collect();
    order.shuffle(&mut items);
    for (i, unc) in items {
        if unc {
            let f = &inst.uncertain[i];
            re.add_tagged_triple(&f.0, &f.1, &f.2, inst.probs[i]);
        } else {
            let f = &inst.certain[i];
            re.add_abox_triple(&f.0, &f.1, &f.2);
        }
    }
    let mut rules = inst.rules.clone();
    order.shuffle(&mut rules);
    let dict = re.dictionary.clone();
    let mut enc = |s: &str| -> u32 { dict.write().unwrap().encode(s) };
    for r in encode_rules(&rules, &mut enc) {
        re.add_rule(r);
    }
    Built { re }
}

fn decode_triple(re: &Reasoner, t: &Triple) -> LF {
    let d = re.dictionary.read().unwrap();
    let g = |id: u32| d.decode(id).map(|s| s.to_string()).unwrap_or_else(|| format!("<undecodable id {}>", id));
    (g(t.subject), g(t.predicate), g(t.object))
}

fn store(re: &Reasoner) -> Vec<Triple> {
    re.dataset_index.query(None, None, None)
}

/// Run one provenance mode in a fresh reasoner.  `extra` sees the reasoner and the tag store
/// after inference (used for the formula-level DNF check).
fn run_mode<P: Provenance, X>(inst: &Inst, order_seed: u64, prov: P, extra: impl FnOnce(&Reasoner, &TagStore<P>) -> X) -> Result<(Out, X), String> {
    let mut order = Rng::new(order_seed);
    let b = build(inst, &mut order);
    let mut re = b.re;
    let before: BTreeSet<LF> = store(&re).iter().map(|t| decode_triple(&re, t)).collect();
    let p2 = prov.clone();
    let (re, facts, tags) = guard(move || {
        let (facts, tags) = re.infer_new_facts_with_provenance(p2);
        (re, facts, tags)
    })?;
    let mut probs = BTreeMap::new();
    let r = guard(|| {
        for t in store(&re) {
            let tag = tags.get_tag(&t);
            let p = tags.provenance().recover_probability(&tag);
            probs.insert(decode_triple(&re, &t), p);
        }
    });
    r?;
    let returned: Vec<LF> = facts.iter().map(|t| decode_triple(&re, t)).collect();
    let x = extra(&re, &tags);
    // the path by which probabilities reach the user: << s p o >> prob:value "p"^^xsd:double
    let mut export_problem = None;
    let mut exported = 0;
    let ex = guard(|| {
        let mut qt = shared::quoted_triple_store::QuotedTripleStore::new();
        let out = {
            let mut dict = re.dictionary.write().unwrap();
            tags.encode_as_rdf_star(&mut dict, &mut qt)
        };
        let mut rows = vec![];
        for t in &out {
            let inner = qt.decode(t.subject).map(|(s, p, o)| decode_triple(&re, &Triple { subject: s, predicate: p, object: o }));
            let lit = re.dictionary.read().unwrap().decode(t.object).map(|s| s.to_string());
            rows.push((inner, lit));
        }
        rows
    });
    match ex {
        Err(e) => export_problem = Some(json!({"panic": e})),
        Ok(rows) => {
            exported = rows.len();
            if rows.len() != tags.len() {
                export_problem = Some(json!({"exported_rows": rows.len(), "explicit_tags": tags.len()}));
            }
            for (inner, lit) in rows {
                let val: Option<f64> = lit.as_ref().and_then(|l| l.strip_prefix('"')).and_then(|l| l.split('"').next()).and_then(|v| v.parse().ok());
                let want = inner.as_ref().and_then(|f| probs.get(f)).copied();
                let same = match (val, want) {
                    (Some(a), Some(b)) => a == b,
                    _ => false,
                };
                if !same && export_problem.is_none() {
                    export_problem = Some(json!({"quoted_triple": inner.as_ref().map(lf_str), "literal": lit, "recovered_probability": want}));
                }
            }
        }
    }
    Ok((Out { probs, returned, before, explicit_tags: tags.len(), export_problem, exported }, x))
}

// ------------------------------------------------------------------------------------------
// comparison

#[derive(Clone, Debug)]
struct Finding {
    mode: &'static str,
    kind: String,
    direction: &'static str,
    fact: Option<LF>,
    detail: Value,
}

#[derive(Default)]
struct Stats {
    evals: u64,
    comparisons: BTreeMap<&'static str, u64>,
    strict_comparisons: BTreeMap<&'static str, u64>,
    tiny_rounding_differences: u64,
    returned_equals_store_delta: u64,
    returned_differs_from_store_delta: u64,
    explicit_tags: u64,
    formula_world_checks: u64,
    zero_probability_facts_present: u64,
    formulas_differ_syntactically_between_identical_runs: u64,
    exported_rows: u64,
}

fn expected_for(mode: Mode, w: &Worlds, weights: &[f64], probs: &[f64], fi: usize) -> f64 {
    match mode {
        Mode::Dnf | Mode::Sdd => w.prob(fi, weights),
        Mode::Bool => {
            let mask = probs.iter().enumerate().fold(0usize, |m, (i, p)| if *p > 0.0 { m | 1 << i } else { m });
            if w.holds(fi, mask) {
                1.0
            } else {
                0.0
            }
        }
        Mode::MinMax => {
            let mut th: Vec<f64> = probs.to_vec();
            th.push(1.0);
            th.sort_by(|a, b| b.partial_cmp(a).unwrap());
            th.dedup();
            for theta in th {
                let mask = probs.iter().enumerate().fold(0usize, |m, (i, p)| if *p >= theta { m | 1 << i } else { m });
                if w.holds(fi, mask) {
                    return theta;
                }
            }
            0.0
        }
    }
}

/// Compare one engine output with the oracle.  Pushes at most one finding per kind.
fn compare(mode: Mode, inst: &Inst, w: &Worlds, weights: &[f64], out: &Out, st: &mut Stats, findings: &mut Vec<Finding>) {
    let mut seen_kinds: BTreeSet<String> = BTreeSet::new();
    let mut push = |kind: &str, direction: &'static str, fact: Option<LF>, detail: Value, findings: &mut Vec<Finding>| {
        if seen_kinds.insert(format!("{}/{}", kind, direction)) {
            findings.push(Finding { mode: mode.name(), kind: kind.to_string(), direction, fact, detail });
        }
    };
    let mut universe: BTreeSet<LF> = out.probs.keys().cloned().collect();
    universe.extend(w.facts.iter().cloned());
    let returned_set: BTreeSet<LF> = out.returned.iter().cloned().collect();
    for f in &universe {
        let exp = match w.idx.get(f) {
            Some(&fi) => expected_for(mode, w, weights, &inst.probs, fi),
            None => 0.0,
        };
        *st.comparisons.entry(mode.name()).or_insert(0) += 1;
        let is_input = w.inputs.contains(f);
        if !is_input && exp > 0.0 && exp < 1.0 {
            *st.strict_comparisons.entry(mode.name()).or_insert(0) += 1;
        }
        match out.probs.get(f) {
            None => {
                if exp > TOL {
                    push("fact_of_possible_world_support_missing_from_store", "under", Some(f.clone()), json!({"fact": lf_str(f), "expected_probability": exp}), findings);
                }
            }
            Some(&got) => {
                if !is_input && exp > TOL && !returned_set.contains(f) {
                    push("fact_of_possible_world_support_missing_from_returned_facts", "under", Some(f.clone()), json!({"fact": lf_str(f), "expected_probability": exp, "probability_in_tag_store": got}), findings);
                }
                if exp == 0.0 && got.abs() <= TOL {
                    st.zero_probability_facts_present += 1;
                }
                let d = got - exp;
                if !(d.abs() <= TOL) {
                    let dir = if got > exp { "over" } else { "under" };
                    push("probability_differs_from_oracle", dir, Some(f.clone()), json!({"fact": lf_str(f), "expected": exp, "reported": got, "is_input_fact": is_input}), findings);
                } else if d != 0.0 {
                    st.tiny_rounding_differences += 1;
                }
            }
        }
    }
    // observation only: the returned vector is the store delta
    let after: BTreeSet<LF> = out.probs.keys().cloned().collect();
    let delta: BTreeSet<LF> = after.difference(&out.before).cloned().collect();
    if delta == returned_set && returned_set.len() == out.returned.len() {
        st.returned_equals_store_delta += 1;
    } else {
        st.returned_differs_from_store_delta += 1;
    }
    st.explicit_tags += out.explicit_tags as u64;
    st.exported_rows += out.exported as u64;
    if let Some(p) = &out.export_problem {
        push("rdf_star_export_differs_from_recovered_probability", "n/a", None, p.clone(), findings);
    }
}

/// DNF only: evaluate every stored formula in every world through `seed_triples`.
#[derive(Clone, PartialEq, Debug)]
struct DnfDump {
    seeds: Vec<LF>,
    formulas: BTreeMap<LF, BTreeSet<BTreeSet<(u32, bool)>>>,
}

fn dnf_dump(re: &Reasoner, tags: &TagStore<DnfWmcProvenance>) -> DnfDump {
    let seeds = tags.seed_triples.iter().map(|t| decode_triple(re, t)).collect();
    let mut formulas = BTreeMap::new();
    for t in store(re) {
        formulas.insert(decode_triple(re, &t), tags.get_tag(&t));
    }
    DnfDump { seeds, formulas }
}

fn check_dnf_formulas(inst: &Inst, w: &Worlds, d: &DnfDump, st: &mut Stats, findings: &mut Vec<Finding>) {
    let mode = Mode::Dnf.name();
    // seed numbering: a bijection between ids and the uncertain inputs
    let mut var_to_unc: Vec<Option<usize>> = vec![];
    for s in &d.seeds {
        var_to_unc.push(inst.uncertain.iter().position(|u| u == s));
    }
    let distinct: BTreeSet<&LF> = d.seeds.iter().collect();
    if d.seeds.len() != inst.uncertain.len() || distinct.len() != d.seeds.len() || var_to_unc.iter().any(|x| x.is_none()) {
        findings.push(Finding { mode, kind: "seed_numbering_is_not_a_bijection_with_the_uncertain_inputs".into(), direction: "n/a", fact: None, detail: json!({"seed_triples": d.seeds.iter().map(lf_str).collect::<Vec<_>>()}) });
        return;
    }
    let mut reported = false;
    for (f, phi) in &d.formulas {
        for mask in 0..(1usize << w.n) {
            st.formula_world_checks += 1;
            let mut val = false;
            let mut bad_var = None;
            for clause in phi {
                let mut all = true;
                for &(var, pol) in clause {
                    match var_to_unc.get(var as usize).copied().flatten() {
                        Some(i) => {
                            if (mask >> i & 1 == 1) != pol {
                                all = false;
                                break;
                            }
                        }
                        None => {
                            bad_var = Some(var);
                            all = false;
                            break;
                        }
                    }
                }
                if all {
                    val = true;
                    break;
                }
            }
            if let Some(bv) = bad_var {
                if !reported {
                    reported = true;
                    findings.push(Finding { mode, kind: "formula_mentions_unknown_seed_variable".into(), direction: "n/a", fact: Some(f.clone()), detail: json!({"fact": lf_str(f), "variable": bv, "formula": format!("{:?}", phi)}) });
                }
                break;
            }
            let exp = w.holds_lf(f, mask);
            if val != exp && !reported {
                reported = true;
                let world: Vec<String> = (0..w.n).filter(|i| mask >> i & 1 == 1).map(|i| lf_str(&inst.uncertain[i])).collect();
                findings.push(Finding {
                    mode,
                    kind: "formula_truth_value_differs_from_derivability_in_a_world".into(),
                    direction: if val { "over" } else { "under" },
                    fact: Some(f.clone()),
                    detail: json!({"fact": lf_str(f), "world_uncertain_facts_present": world, "formula_value": val, "derivable_in_world": exp, "formula": format!("{:?}", phi), "seed_triples": d.seeds.iter().map(lf_str).collect::<Vec<_>>()}),
                });
            }
        }
    }
}

/// All checks of one instance for the requested modes.
fn evaluate(inst: &Inst, w: &Worlds, order_seed: u64, modes: &[Mode], formula_level: bool, st: &mut Stats) -> Vec<Finding> {
    let mut findings = vec![];
    let weights = world_weights(&inst.probs);
    let has_neg = !w.positive;
    for &mode in modes.iter() {
        if mode == Mode::MinMax && has_neg {
            continue; // min-max negation (1 - a) is possibilistic: not covered by the property
        }
        let os = kvcore::rng::mix(order_seed ^ (mode as u64 + 1).wrapping_mul(0x9E37_79B9));
        st.evals += 1;
        let res: Result<Out, String> = match mode {
            Mode::Dnf => {
                let r = run_mode(inst, os, DnfWmcProvenance::new(), |re, tags| dnf_dump(re, tags));
                match r {
                    Ok((out, dump)) => {
                        if formula_level {
                            check_dnf_formulas(inst, w, &dump, st, &mut findings);
                            // deterministic numbering: an identically built fresh reasoner gives
                            // the same numbering and the same formulas
                            st.evals += 1;
                            match run_mode(inst, os, DnfWmcProvenance::new(), |re, tags| dnf_dump(re, tags)) {
                                Ok((_, dump2)) => {
                                    if dump2.seeds != dump.seeds {
                                        findings.push(Finding { mode: mode.name(), kind: "seed_numbering_varies_between_identical_runs".into(), direction: "n/a", fact: None, detail: json!({"first": dump.seeds.iter().map(lf_str).collect::<Vec<_>>(), "second": dump2.seeds.iter().map(lf_str).collect::<Vec<_>>()}) });
                                    } else if dump2.formulas != dump.formulas {
                                        // syntactically different formulas may be equivalent (DNF with
                                        // negation is not canonical): judged by the worlds, like the first
                                        st.formulas_differ_syntactically_between_identical_runs += 1;
                                        if !findings.iter().any(|f| f.mode == mode.name() && f.kind.starts_with("formula_")) {
                                            check_dnf_formulas(inst, w, &dump2, st, &mut findings);
                                        }
                                    }
                                }
                                Err(e) => findings.push(Finding { mode: mode.name(), kind: format!("panic@{}", panic_site(&e)), direction: "n/a", fact: None, detail: json!({"panic": e, "run": "repeat"}) }),
                            }
                        }
                        Ok(out)
                    }
                    Err(e) => Err(e),
                }
            }
            Mode::Sdd => run_mode(inst, os, SddProvenance::new(), |_, _| ()).map(|x| x.0),
            Mode::MinMax => run_mode(inst, os, MinMaxProbability, |_, _| ()).map(|x| x.0),
            Mode::Bool => run_mode(inst, os, BooleanProvenance, |_, _| ()).map(|x| x.0),
        };
        match res {
            Ok(out) => compare(mode, inst, w, &weights, &out, st, &mut findings),
            Err(e) => findings.push(Finding { mode: mode.name(), kind: format!("panic@{}", panic_site(&e)), direction: "n/a", fact: None, detail: json!({"panic": e}) }),
        }
    }
    findings
}

// ------------------------------------------------------------------------------------------
// witness minimisation and cause features (both re-run oracle and engine on restricted cases)

fn inst_ok(i: &Inst) -> bool {
    let mut ids = BTreeMap::new();
    let mut enc = |s: &str| -> u32 {
        let n = ids.len() as u32;
        *ids.entry(s.to_string()).or_insert(n)
    };
    let rules = encode_rules(&i.rules, &mut enc);
    rules.iter().all(|r| rule_is_safe(r) && !r.premise.is_empty() && !r.conclusion.is_empty()) && !negative_heads_feed_rules(&rules)
}

fn still_fails(i: &Inst, order_seed: u64, mode: Mode, kind: &str, budget: &mut u32) -> bool {
    if *budget == 0 || !inst_ok(i) {
        return false;
    }
    *budget -= 1;
    let w = worlds(i);
    if w.outside_domain {
        return false;
    }
    // a manifestation may depend on per-instance hash seeds inside the engine: three fresh tries
    for _ in 0..3 {
        let mut st = Stats::default();
        if evaluate(i, &w, order_seed, &[mode], true, &mut st).iter().any(|f| f.mode == mode.name() && f.kind == kind) {
            return true;
        }
    }
    false
}

fn shrink(start: &Inst, order_seed: u64, mode: Mode, kind: &str) -> Inst {
    let mut cur = start.clone();
    let mut budget = 400u32;
    loop {
        let mut progressed = false;
        // remove a rule
        let mut i = 0;
        while i < cur.rules.len() {
            let mut c = cur.clone();
            c.rules.remove(i);
            if still_fails(&c, order_seed, mode, kind, &mut budget) {
                cur = c;
                progressed = true;
            } else {
                i += 1;
            }
        }
        // remove facts
        let mut i = 0;
        while i < cur.certain.len() {
            let mut c = cur.clone();
            c.certain.remove(i);
            if still_fails(&c, order_seed, mode, kind, &mut budget) {
                cur = c;
                progressed = true;
            } else {
                i += 1;
            }
        }
        let mut i = 0;
        while i < cur.uncertain.len() {
            let mut c = cur.clone();
            c.uncertain.remove(i);
            c.probs.remove(i);
            if still_fails(&c, order_seed, mode, kind, &mut budget) {
                cur = c;
                progressed = true;
                continue;
            }
            // make it certain
            let mut c = cur.clone();
            let f = c.uncertain.remove(i);
            c.probs.remove(i);
            if !c.certain.contains(&f) {
                c.certain.push(f);
            }
            if still_fails(&c, order_seed, mode, kind, &mut budget) {
                cur = c;
                progressed = true;
                continue;
            }
            i += 1;
        }
        // simplify rules
        for ri in 0..cur.rules.len() {
            let mut j = 0;
            while j < cur.rules[ri].pos.len() && cur.rules[ri].pos.len() > 1 {
                let mut c = cur.clone();
                c.rules[ri].pos.remove(j);
                if still_fails(&c, order_seed, mode, kind, &mut budget) {
                    cur = c;
                    progressed = true;
                } else {
                    j += 1;
                }
            }
            let mut j = 0;
            while j < cur.rules[ri].neg.len() {
                let mut c = cur.clone();
                c.rules[ri].neg.remove(j);
                if still_fails(&c, order_seed, mode, kind, &mut budget) {
                    cur = c;
                    progressed = true;
                } else {
                    j += 1;
                }
            }
            let mut j = 0;
            while j < cur.rules[ri].filters.len() {
                let mut c = cur.clone();
                c.rules[ri].filters.remove(j);
                if still_fails(&c, order_seed, mode, kind, &mut budget) {
                    cur = c;
                    progressed = true;
                } else {
                    j += 1;
                }
            }
            let mut j = 0;
            while j < cur.rules[ri].head.len() && cur.rules[ri].head.len() > 1 {
                let mut c = cur.clone();
                c.rules[ri].head.remove(j);
                if still_fails(&c, order_seed, mode, kind, &mut budget) {
                    cur = c;
                    progressed = true;
                } else {
                    j += 1;
                }
            }
        }
        // neutral probabilities
        for i in 0..cur.probs.len() {
            if cur.probs[i] != 0.5 {
                let mut c = cur.clone();
                c.probs[i] = 0.5;
                if still_fails(&c, order_seed, mode, kind, &mut budget) {
                    cur = c;
                    progressed = true;
                }
            }
        }
        if !progressed || budget == 0 {
            break;
        }
    }
    cur
}

fn pred_of(p: &Pat) -> Option<&str> {
    match &p.1 {
        PT::C(c) => Some(c.as_str()),
        PT::V(_) => None,
    }
}

fn recursive(rules: &[LRule]) -> bool {
    // predicate dependency graph; a variable predicate stands for every predicate
    let mut preds: BTreeSet<String> = BTreeSet::new();
    for r in rules {
        for p in r.pos.iter().chain(r.head.iter()).chain(r.neg.iter()) {
            if let Some(c) = pred_of(p) {
                preds.insert(c.to_string());
            }
        }
    }
    let all: Vec<String> = preds.iter().cloned().collect();
    let expand = |p: &Pat| -> Vec<String> {
        match pred_of(p) {
            Some(c) => vec![c.to_string()],
            None => all.clone(),
        }
    };
    let mut edges: BTreeSet<(String, String)> = BTreeSet::new();
    for r in rules {
        for h in &r.head {
            for b in r.pos.iter().chain(r.neg.iter()) {
                for hp in expand(h) {
                    for bp in expand(b) {
                        edges.insert((bp, hp.clone()));
                    }
                }
            }
        }
    }
    // transitive closure
    let mut reach = edges.clone();
    loop {
        let mut add = vec![];
        for (a, b) in &reach {
            for (c, d) in &edges {
                if b == c && !reach.contains(&(a.clone(), d.clone())) {
                    add.push((a.clone(), d.clone()));
                }
            }
        }
        if add.is_empty() {
            break;
        }
        reach.extend(add);
    }
    reach.iter().any(|(a, b)| a == b)
}

/// Structural / oracle-established properties of a (minimised) witness.
fn features(i: &Inst, w: &Worlds, fact: &Option<LF>) -> Vec<String> {
    let mut out = vec![];
    if i.rules.iter().any(|r| !r.neg.is_empty()) {
        out.push("negated_atom".to_string());
    }
    if recursive(&i.rules) {
        out.push("recursive_rules".to_string());
    }
    if i.rules.iter().any(|r| !r.filters.is_empty()) {
        out.push("filter".to_string());
    }
    if i.rules.iter().any(|r| r.pos.iter().chain(r.head.iter()).any(|p| matches!(p.1, PT::V(_)))) {
        out.push("variable_predicate".to_string());
    }
    if i.rules.iter().any(|r| r.head.len() > 1) {
        out.push("several_conclusions".to_string());
    }
    if i.probs.iter().any(|p| *p == 0.0) {
        out.push("input_with_probability_0".to_string());
    }
    if i.probs.iter().any(|p| *p == 1.0) {
        out.push("input_with_probability_1".to_string());
    }
    // an uncertain input that is also derivable without itself
    for (ui, u) in i.uncertain.iter().enumerate() {
        if let Some(&fi) = w.idx.get(u) {
            if (0..(1usize << w.n)).any(|m| m >> ui & 1 == 0 && w.holds(fi, m)) {
                out.push("uncertain_input_also_derivable".to_string());
                break;
            }
        }
    }
    if w.positive {
        let target: Vec<usize> = match fact.as_ref().and_then(|f| w.idx.get(f)) {
            Some(&fi) => vec![fi],
            None => (0..w.facts.len()).collect(),
        };
        let mut multi = false;
        let mut shared = false;
        for &fi in &target {
            let mp = w.minimal_proofs(fi);
            if mp.len() >= 2 {
                multi = true;
                for a in 0..mp.len() {
                    for b in a + 1..mp.len() {
                        if mp[a] & mp[b] != 0 {
                            shared = true;
                        }
                    }
                }
            }
        }
        if multi {
            out.push("several_minimal_proofs".to_string());
        }
        if shared {
            out.push("proofs_share_evidence".to_string());
        }
        if late_improved_facts(w) > 0 {
            out.push("proof_arriving_after_first_derivation".to_string());
        }
    }
    out
}

/// Number of facts with a minimal proof that needs more rounds than the fact's first
/// derivation when all inputs are present (positive programs).  Every derivation tree whose
/// leaves lie in the minimal world m has depth >= height(f | m), so at the round of the first
/// derivation the tag cannot yet contain that proof: it has to arrive as an improvement.
fn late_improved_facts(w: &Worlds) -> usize {
    if !w.positive {
        return 0;
    }
    let full = (1usize << w.n) - 1;
    let mut n = 0;
    for fi in 0..w.facts.len() {
        let h_full = match w.heights[full].get(&fi) {
            Some(h) => *h,
            None => continue,
        };
        if w.minimal_proofs(fi).iter().any(|m| *w.heights[*m].get(&fi).unwrap_or(&0) > h_full) {
            n += 1;
        }
    }
    n
}

// ------------------------------------------------------------------------------------------
// generators

fn dyadic(r: &mut Rng) -> f64 {
    let kk = if r.chance(1, 9) {
        0
    } else if r.chance(1, 8) {
        16
    } else {
        r.range(1, 15)
    };
    kk as f64 / 16.0
}

fn arbitrary(r: &mut Rng, prev: &[f64]) -> f64 {
    match r.below(16) {
        0 => 0.0,
        1 => 1.0,
        2 => r.f64() * 1e-6,
        3 => 1.0 - r.f64() * 1e-6,
        4 if !prev.is_empty() => {
            // very close to (or equal to) another input's probability
            let p = *r.pick(prev);
            if r.coin() {
                p
            } else {
                (p + (r.f64() - 0.5) * 1e-7).clamp(0.0, 1.0)
            }
        }
        _ => r.f64(),
    }
}

struct Skel {
    family: String,
    certain: Vec<LF>,
    uncertain: Vec<LF>,
    rules: Vec<LRule>,
}

fn dedup_facts(s: &mut Skel) {
    let mut seen: BTreeSet<LF> = BTreeSet::new();
    s.uncertain.retain(|f| seen.insert(f.clone()));
    s.certain.retain(|f| seen.insert(f.clone()));
}

/// transitive closure variants over uncertain edges, cycles welcome
fn gen_tc(r: &mut Rng, cap: usize) -> Skel {
    let nn = r.range(3, 5);
    let node = |i: usize| format!("n{}", i);
    let m = r.range(3, (cap + 3).min(nn * nn));
    let mut edges: BTreeSet<(usize, usize)> = BTreeSet::new();
    // a cycle or a chain as backbone, then random extra edges
    let backbone = r.range(2, nn);
    for i in 0..backbone {
        if i + 1 < backbone {
            edges.insert((i, i + 1));
        } else if r.chance(2, 3) {
            edges.insert((i, 0));
        }
    }
    let mut guard_n = 0;
    while edges.len() < m && guard_n < 100 {
        guard_n += 1;
        let a = r.below(nn);
        let b = r.below(nn);
        if a == b && !r.chance(1, 6) {
            continue;
        }
        edges.insert((a, b));
    }
    let mut es: Vec<(usize, usize)> = edges.into_iter().collect();
    r.shuffle(&mut es);
    let n_unc = r.range(2.max(cap.saturating_sub(2)), cap).min(es.len());
    let mut s = Skel { family: "tc".into(), certain: vec![], uncertain: vec![], rules: vec![] };
    for (i, (a, b)) in es.iter().enumerate() {
        let f = lf(&node(*a), "edge", &node(*b));
        if i < n_unc {
            s.uncertain.push(f);
        } else {
            s.certain.push(f);
        }
    }
    let variant = r.below(8);
    let base = rule(vec![pat(v("X"), "edge", v("Y"))], vec![pat(v("X"), "path", v("Y"))]);
    match variant {
        0 => {
            s.rules.push(base);
            s.rules.push(rule(vec![pat(v("X"), "edge", v("Y")), pat(v("Y"), "path", v("Z"))], vec![pat(v("X"), "path", v("Z"))]));
        }
        1 => {
            s.rules.push(base);
            s.rules.push(rule(vec![pat(v("X"), "path", v("Y")), pat(v("Y"), "edge", v("Z"))], vec![pat(v("X"), "path", v("Z"))]));
        }
        2 => {
            s.rules.push(base);
            s.rules.push(rule(vec![pat(v("X"), "path", v("Y")), pat(v("Y"), "path", v("Z"))], vec![pat(v("X"), "path", v("Z"))]));
        }
        3 => {
            // the uncertain relation itself is closed: seeds that are also derivable
            s.rules.push(rule(vec![pat(v("X"), "edge", v("Y")), pat(v("Y"), "edge", v("Z"))], vec![pat(v("X"), "edge", v("Z"))]));
        }
        4 => {
            s.rules.push(base);
            s.rules.push(rule(vec![pat(v("X"), "edge", v("Y"))], vec![pat(v("Y"), "edge", v("X"))]));
            s.rules.push(rule(vec![pat(v("X"), "path", v("Y")), pat(v("Y"), "edge", v("Z"))], vec![pat(v("X"), "path", v("Z"))]));
        }
        5 => {
            // reachability from an (uncertain) start marker
            let st = lf(&node(0), "reach", "yes");
            if r.coin() && s.uncertain.len() < cap {
                s.uncertain.push(st);
            } else {
                s.certain.push(st);
            }
            s.rules.push(rule(vec![pat(v("X"), "reach", k("yes")), pat(v("X"), "edge", v("Y"))], vec![pat(v("Y"), "reach", k("yes"))]));
        }
        6 => {
            s.rules.push(base);
            s.rules.push(rule(vec![pat(v("X"), "path", v("Y")), pat(v("Y"), "edge", v("Z"))], vec![pat(v("X"), "path", v("Z"))]));
            // consumers: on a cycle; mutual reachability
            s.rules.push(rule(vec![pat(v("X"), "path", v("X"))], vec![pat(v("X"), "cyc", k("yes"))]));
            s.rules.push(rule(vec![pat(v("X"), "path", v("Y")), pat(v("Y"), "path", v("X"))], vec![pat(v("X"), "scc", v("Y"))]));
        }
        _ => {
            // three-premise step and two conclusions
            s.rules.push(base);
            s.rules.push(LRule { pos: vec![pat(v("X"), "path", v("Y")), pat(v("Y"), "edge", v("Z")), pat(v("Z"), "edge", v("W"))], neg: vec![], filters: vec![], head: vec![pat(v("X"), "path", v("W")), pat(v("X"), "far", v("W"))] });
            s.rules.push(rule(vec![pat(v("X"), "path", v("Y")), pat(v("Y"), "edge", v("Z"))], vec![pat(v("X"), "path", v("Z"))]));
        }
    }
    if r.chance(1, 4) {
        // filter: proper paths only
        s.rules.push(LRule { pos: vec![pat(v("X"), "path", v("Y"))], neg: vec![], filters: vec![("X".into(), "!=".into(), "Y".into())], head: vec![pat(v("X"), "proper", v("Y"))] });
    }
    dedup_facts(&mut s);
    s
}

/// layered and/or gates over shared evidence
fn gen_diamond(r: &mut Rng, cap: usize) -> Skel {
    let mut s = Skel { family: "diamond".into(), certain: vec![], uncertain: vec![], rules: vec![] };
    let ground = r.chance(3, 5);
    if ground {
        let n_e = r.range(2.max(cap.saturating_sub(2)), cap);
        let mut atoms: Vec<String> = vec![];
        for i in 0..n_e {
            let a = format!("e{}", i);
            s.uncertain.push(lf(&a, "on", "t"));
            atoms.push(a);
        }
        for i in 0..r.range(0, 2) {
            let a = format!("z{}", i);
            s.certain.push(lf(&a, "on", "t"));
            atoms.push(a);
        }
        let layers = r.range(1, 3);
        let mut gid = 0;
        for _ in 0..layers {
            let width = r.range(1, 3);
            let lower = atoms.clone();
            for _ in 0..width {
                let g = format!("g{}", gid);
                gid += 1;
                for _ in 0..r.range(1, 3) {
                    let np = r.range(1, 3);
                    let mut prem = vec![];
                    for _ in 0..np {
                        prem.push(pat(k(r.pick(&lower).as_str()), "on", k("t")));
                    }
                    s.rules.push(rule(prem, vec![pat(k(&g), "on", k("t"))]));
                }
                atoms.push(g);
            }
        }
        // sometimes a gate output coincides with an evidence fact (seed and derivable)
        if r.chance(1, 4) && gid > 0 {
            let e = format!("e{}", r.below(n_e));
            let g = format!("g{}", r.below(gid));
            s.rules.push(rule(vec![pat(k(&g), "on", k("t"))], vec![pat(k(&e), "on", k("t"))]));
        }
    } else {
        // the same with a subject variable: atoms are predicates
        let subjects: Vec<String> = (0..r.range(1, 2)).map(|i| format!("s{}", i)).collect();
        let n_kinds = r.range(2, (cap / subjects.len()).max(2));
        let mut kinds: Vec<String> = (0..n_kinds).map(|i| format!("k{}", i)).collect();
        let mut budget = cap;
        for sj in &subjects {
            for kd in &kinds {
                if budget > 0 && r.chance(5, 6) {
                    s.uncertain.push(lf(sj, kd, "t"));
                    budget -= 1;
                } else if r.chance(1, 2) {
                    s.certain.push(lf(sj, kd, "t"));
                }
            }
        }
        let layers = r.range(1, 3);
        let mut gid = 0;
        for _ in 0..layers {
            let lower = kinds.clone();
            for _ in 0..r.range(1, 2) {
                let g = format!("h{}", gid);
                gid += 1;
                for _ in 0..r.range(1, 3) {
                    let np = r.range(1, 3);
                    let prem = (0..np).map(|_| pat(v("S"), r.pick(&lower).as_str(), k("t"))).collect();
                    s.rules.push(rule(prem, vec![pat(v("S"), &g, k("t"))]));
                }
                kinds.push(g);
            }
        }
        if r.chance(1, 4) {
            let a = r.pick(&kinds).clone();
            let b = r.pick(&kinds).clone();
            s.rules.push(rule(vec![pat(v("S"), &a, k("t")), pat(v("T"), &b, k("t"))], vec![pat(v("S"), "both", v("T"))]));
        }
    }
    if s.uncertain.len() < 2 {
        s.uncertain.push(lf("e_extra0", "on", "t"));
        s.uncertain.push(lf("e_extra1", "on", "t"));
        s.rules.push(rule(vec![pat(k("e_extra0"), "on", k("t")), pat(k("e_extra1"), "on", k("t"))], vec![pat(k("g_extra"), "on", k("t"))]));
    }
    dedup_facts(&mut s);
    s
}

/// A fact F with a short proof (available in round 1) and a long proof that arrives rounds
/// later; consumers of F are derived before the long proof arrives and must be re-triggered.
fn gen_late(r: &mut Rng, cap: usize) -> Skel {
    let mut s = Skel { family: "late".into(), certain: vec![], uncertain: vec![], rules: vec![] };
    let mut unc_left = cap;
    let add = |s: &mut Skel, f: LF, want_unc: bool, unc_left: &mut usize| {
        if want_unc && *unc_left > 0 {
            s.uncertain.push(f);
            *unc_left -= 1;
        } else {
            s.certain.push(f);
        }
    };
    // short proof
    add(&mut s, lf("a", "d", "b"), true, &mut unc_left);
    s.rules.push(rule(vec![pat(v("X"), "d", v("Y"))], vec![pat(v("X"), "f", v("Y"))]));
    // long proof: chain c0 -> c1 -> ... -> ck -> f
    let kk = r.range(1, 4);
    // one time in three the long proof is certain: the stored tag then improves to "true"
    let long_uncertain = !r.chance(1, 3);
    add(&mut s, lf("a", "c0", "b"), long_uncertain, &mut unc_left);
    for i in 0..kk {
        let mut prem = vec![pat(v("X"), &format!("c{}", i), v("Y"))];
        if r.chance(1, 3) {
            // a side condition on the way
            let side = format!("side{}", i);
            add(&mut s, lf("a", &side, "b"), r.chance(2, 3), &mut unc_left);
            prem.push(pat(v("X"), &side, v("Y")));
        }
        s.rules.push(rule(prem, vec![pat(v("X"), &format!("c{}", i + 1), v("Y"))]));
    }
    s.rules.push(rule(vec![pat(v("X"), &format!("c{}", kk), v("Y"))], vec![pat(v("X"), "f", v("Y"))]));
    // consumers
    let depth = r.range(1, 3);
    let mut prev = "f".to_string();
    for i in 0..depth {
        let g = format!("g{}", i);
        let mut prem = vec![pat(v("X"), &prev, v("Y"))];
        if r.chance(1, 2) {
            let h = format!("h{}", i);
            add(&mut s, lf("a", &h, "b"), r.chance(3, 4), &mut unc_left);
            prem.push(pat(v("X"), &h, v("Y")));
        }
        s.rules.push(rule(prem, vec![pat(v("X"), &g, v("Y"))]));
        prev = g;
    }
    match r.below(4) {
        0 => {
            // the consumer feeds back into the chain start (cycle through F)
            s.rules.push(rule(vec![pat(v("X"), &prev, v("Y"))], vec![pat(v("X"), "c0", v("Y"))]));
        }
        1 => {
            // a second consumer joining F with the short proof's evidence (shared evidence)
            s.rules.push(rule(vec![pat(v("X"), "f", v("Y")), pat(v("X"), "d", v("Y"))], vec![pat(v("X"), "fd", v("Y"))]));
        }
        2 => {
            // F itself is an uncertain input as well
            add(&mut s, lf("a", "f", "b"), true, &mut unc_left);
        }
        _ => {}
    }
    if r.chance(1, 3) {
        // a second instance sharing the rules
        add(&mut s, lf("b", "c0", "a"), true, &mut unc_left);
        add(&mut s, lf("b", "d", "a"), r.coin(), &mut unc_left);
    }
    dedup_facts(&mut s);
    s
}

fn gen_pt(r: &mut Rng, vars: &[&str], consts: &[String], p_var: usize) -> PT {
    if r.chance(p_var, 100) {
        PT::V(r.pick(vars).to_string())
    } else {
        PT::C(r.pick(consts).clone())
    }
}

fn bound_vars(prem: &[Pat]) -> Vec<String> {
    let mut b: BTreeSet<String> = BTreeSet::new();
    for p in prem {
        for t in [&p.0, &p.1, &p.2] {
            if let PT::V(x) = t {
                b.insert(x.clone());
            }
        }
    }
    b.into_iter().collect()
}

fn gen_random_rule(r: &mut Rng, preds: &[String], consts: &[String], head_preds: &[String]) -> LRule {
    let vars = ["X", "Y", "Z"];
    let np = *r.pick(&[1usize, 1, 2, 2, 2, 3]);
    let mut prem = vec![];
    for _ in 0..np {
        let p = if r.chance(1, 25) { PT::V("P".into()) } else { PT::C(r.pick(preds).clone()) };
        prem.push((gen_pt(r, &vars, consts, 75), p, gen_pt(r, &vars, consts, 70)));
    }
    let bound = bound_vars(&prem);
    let so_bound: Vec<String> = bound.iter().filter(|b| *b != "P").cloned().collect();
    let head_t = |r: &mut Rng| -> PT {
        if !so_bound.is_empty() && r.chance(3, 4) {
            PT::V(r.pick(&so_bound).clone())
        } else {
            PT::C(r.pick(consts).clone())
        }
    };
    let nh = if r.chance(1, 6) { 2 } else { 1 };
    let mut head = vec![];
    for _ in 0..nh {
        let hp = if bound.iter().any(|b| b == "P") && r.chance(1, 2) { PT::V("P".into()) } else { PT::C(r.pick(head_preds).clone()) };
        head.push((head_t(r), hp, head_t(r)));
    }
    let mut filters = vec![];
    if so_bound.len() >= 2 && r.chance(1, 6) {
        let a = r.pick(&so_bound).clone();
        let b = r.pick(&so_bound).clone();
        if a != b {
            filters.push((a, if r.chance(2, 3) { "!=".to_string() } else { "=".to_string() }, b));
        }
    }
    LRule { pos: prem, neg: vec![], filters, head }
}

fn gen_random(r: &mut Rng, cap: usize) -> Skel {
    let n_ent = r.range(2, 4);
    let n_pred = r.range(2, 3);
    let ents: Vec<String> = (0..n_ent).map(|i| format!("c{}", i)).collect();
    let preds: Vec<String> = (0..n_pred).map(|i| format!("p{}", i)).collect();
    let mut s = Skel { family: "random".into(), certain: vec![], uncertain: vec![], rules: vec![] };
    let n_facts = r.range(3, cap + 3);
    let mut fs: BTreeSet<LF> = BTreeSet::new();
    for _ in 0..n_facts {
        fs.insert((r.pick(&ents).clone(), r.pick(&preds).clone(), r.pick(&ents).clone()));
    }
    let mut fs: Vec<LF> = fs.into_iter().collect();
    r.shuffle(&mut fs);
    let n_unc = r.range(2.max(cap.saturating_sub(2)), cap).min(fs.len());
    for (i, f) in fs.into_iter().enumerate() {
        if i < n_unc {
            s.uncertain.push(f);
        } else {
            s.certain.push(f);
        }
    }
    let mut head_preds = preds.clone();
    if r.coin() {
        head_preds.push("q".into());
    }
    let mut body_preds = head_preds.clone();
    body_preds.extend(preds.iter().cloned()); // bias to input predicates
    for _ in 0..r.range(1, 4) {
        s.rules.push(gen_random_rule(r, &body_preds, &ents, &head_preds));
    }
    s
}

/// add 1-2 rules with negated atoms whose heads feed nothing
fn add_negation(r: &mut Rng, s: &mut Skel) {
    let mut preds: BTreeSet<String> = BTreeSet::new();
    let mut consts: BTreeSet<String> = BTreeSet::new();
    for f in s.certain.iter().chain(s.uncertain.iter()) {
        consts.insert(f.0.clone());
        preds.insert(f.1.clone());
        consts.insert(f.2.clone());
    }
    for rl in &s.rules {
        for p in rl.head.iter().chain(rl.pos.iter()) {
            if let PT::C(c) = &p.1 {
                preds.insert(c.clone());
            }
            for t in [&p.0, &p.2] {
                if let PT::C(c) = t {
                    consts.insert(c.clone());
                }
            }
        }
    }
    let preds: Vec<String> = preds.into_iter().collect();
    let consts: Vec<String> = consts.into_iter().collect();
    let vars = ["X", "Y", "Z"];
    let n_neg = r.range(1, 3);
    let mut last_neg: Option<LRule> = None;
    for j in 0..n_neg {
        // a sibling of the previous negation rule: the same head and variables, other
        // predicates in the body, so that two negation rules conclude the same facts
        if let Some(prev) = last_neg.clone() {
            if r.chance(1, 2) {
                let mut placed = false;
                for _attempt in 0..12 {
                    let mut cand = prev.clone();
                    for p in cand.pos.iter_mut().chain(cand.neg.iter_mut()) {
                        if r.chance(2, 3) {
                            p.1 = PT::C(r.pick(&preds).clone());
                        }
                    }
                    if cand.pos == prev.pos && cand.neg == prev.neg {
                        continue;
                    }
                    let mut all = s.rules.clone();
                    all.push(cand.clone());
                    let probe = Inst { family: String::new(), certain: vec![], uncertain: vec![], probs: vec![], rules: all };
                    if inst_ok(&probe) {
                        s.rules.push(cand);
                        placed = true;
                        break;
                    }
                }
                if placed {
                    continue;
                }
            }
        }
        for _attempt in 0..12 {
            let np = r.range(1, 3);
            let mut prem = vec![];
            for _ in 0..np {
                prem.push((gen_pt(r, &vars, &consts, 80), PT::C(r.pick(&preds).clone()), gen_pt(r, &vars, &consts, 75)));
            }
            let bound = bound_vars(&prem);
            let bt = |r: &mut Rng| -> PT {
                if !bound.is_empty() && r.chance(4, 5) {
                    PT::V(r.pick(&bound).clone())
                } else {
                    PT::C(r.pick(&consts).clone())
                }
            };
            let nn = if r.chance(1, 4) { 2 } else { 1 };
            let mut neg = vec![];
            for _ in 0..nn {
                neg.push((bt(r), PT::C(r.pick(&preds).clone()), bt(r)));
            }
            let hp = if r.chance(1, 4) { r.pick(&preds).clone() } else { format!("nq{}", j) };
            let mut head = vec![(bt(r), PT::C(hp.clone()), bt(r))];
            if r.chance(1, 4) {
                // a second conclusion sharing the tag of the first
                let hp2 = if r.coin() { hp } else { format!("nr{}", j) };
                head.push((bt(r), PT::C(hp2), bt(r)));
            }
            let mut filters = vec![];
            if bound.len() >= 2 && r.chance(1, 5) {
                let a = r.pick(&bound).clone();
                let b = r.pick(&bound).clone();
                if a != b {
                    filters.push((a, r.pick(&["=", "!="]).to_string(), b));
                }
            }
            let cand = LRule { pos: prem, neg, filters, head };
            let mut all = s.rules.clone();
            all.push(cand.clone());
            let probe = Inst { family: String::new(), certain: vec![], uncertain: vec![], probs: vec![], rules: all };
            if inst_ok(&probe) {
                last_neg = Some(cand.clone());
                s.rules.push(cand);
                break;
            }
        }
    }
    s.family = format!("negation/{}", s.family);
}

fn gen_skel(r: &mut Rng, family: &str, cap: usize) -> Skel {
    match family {
        "tc" => gen_tc(r, cap),
        "diamond" => gen_diamond(r, cap),
        "late" => gen_late(r, cap),
        "random" => gen_random(r, cap),
        "negation" => {
            let c2 = if cap > 8 { 10 } else { cap.max(2) };
            let mut s = match r.below(4) {
                0 => gen_tc(r, c2),
                1 => gen_diamond(r, c2),
                2 => gen_late(r, c2),
                _ => gen_random(r, c2),
            };
            add_negation(r, &mut s);
            s
        }
        _ => {
            // zero_one
            let c2 = cap.min(6).max(2);
            let mut s = match r.below(4) {
                0 => gen_tc(r, c2),
                1 => gen_diamond(r, c2),
                2 => gen_late(r, c2),
                _ => gen_random(r, c2),
            };
            if r.chance(1, 3) {
                add_negation(r, &mut s);
            }
            s.family = format!("zero_one/{}", s.family);
            s
        }
    }
}

// ------------------------------------------------------------------------------------------

fn report(ctx: &mut Ctx, inst: &Inst, assignment: &str, order_seed: u64, findings: Vec<Finding>) {
    let mut done: BTreeSet<(String, String, String)> = BTreeSet::new();
    for f in findings {
        if !done.insert((f.mode.to_string(), f.kind.clone(), f.direction.to_string())) {
            continue;
        }
        let mode = [Mode::Dnf, Mode::Sdd, Mode::MinMax, Mode::Bool].into_iter().find(|m| m.name() == f.mode).unwrap();
        // minimise and establish the cause on the minimal witness
        let small = shrink(inst, order_seed, mode, &f.kind);
        let w = worlds(&small);
        let mut hit: Option<Finding> = None;
        for _ in 0..6 {
            let mut st = Stats::default();
            let again = evaluate(&small, &w, order_seed, &[mode], true, &mut st);
            hit = again.into_iter().find(|g| g.mode == f.mode && g.kind == f.kind);
            if hit.is_some() {
                break;
            }
        }
        let (fact, direction, small_detail) = match &hit {
            Some(g) => (g.fact.clone(), g.direction, g.detail.clone()),
            None => (f.fact.clone(), f.direction, Value::Null),
        };
        let feats = features(&small, &w, &fact);
        // primary cause: the first of these (oracle-established on the minimised witness, which
        // no longer contains anything the failure does not need)
        const PRIORITY: [&str; 11] = ["negated_atom", "proof_arriving_after_first_derivation", "proofs_share_evidence", "several_minimal_proofs", "uncertain_input_also_derivable", "recursive_rules", "filter", "variable_predicate", "several_conclusions", "input_with_probability_0", "input_with_probability_1"];
        let cause = if f.kind.starts_with("seed_numbering") { "seed_numbering" } else { PRIORITY.iter().find(|p| feats.iter().any(|x| x == *p)).copied().unwrap_or("single_proof_of_a_derived_fact") };
        ctx.violation(
            json!({"kind": f.kind, "mode": f.mode, "direction": direction, "cause": cause}),
            json!({"assignment": assignment, "features_of_minimal_witness": feats, "order_seed": order_seed, "original_case": inst_json(inst), "original_observation": f.detail, "minimal_witness": inst_json(&small), "minimal_observation": small_detail}),
        );
    }
}

fn flush(ctx: &mut Ctx, st: &Stats, tag: &str) {
    ctx.add_evals(st.evals);
    for (m, n) in &st.comparisons {
        ctx.count(&format!("fact_comparisons.{}.{}", m, tag), *n);
    }
    for (m, n) in &st.strict_comparisons {
        ctx.count(&format!("derived_fact_comparisons_with_probability_strictly_between_0_and_1.{}", m), *n);
    }
    ctx.count(&format!("differences_below_1e-9_not_flagged.{}", tag), st.tiny_rounding_differences);
    ctx.count("runs_where_returned_facts_equal_store_delta", st.returned_equals_store_delta);
    ctx.count("runs_where_returned_facts_differ_from_store_delta", st.returned_differs_from_store_delta);
    ctx.count("explicit_tags_seen", st.explicit_tags);
    ctx.count("rdf_star_probability_rows_checked", st.exported_rows);
    ctx.count("dnf_formula_evaluations_in_worlds", st.formula_world_checks);
    ctx.count("facts_present_with_probability_0", st.zero_probability_facts_present);
    ctx.count("dnf_runs_whose_formulas_differ_syntactically_from_an_identical_run", st.formulas_differ_syntactically_between_identical_runs);
}

/// approximate modes: observation counters only
fn observe_approximate(ctx: &mut Ctx, inst: &Inst, w: &Worlds, order_seed: u64) {
    let weights = world_weights(&inst.probs);
    let exact = |f: &LF| -> f64 { w.idx.get(f).map(|&fi| w.prob(fi, &weights)).unwrap_or(0.0) };
    ctx.add_evals(1);
    if let Ok((out, _)) = run_mode(inst, order_seed, AddMultProbability, |_, _| ()) {
        for (f, p) in &out.probs {
            if (p - exact(f)).abs() > TOL {
                ctx.count("approximate_modes.noisy_or_fact_differs_from_exact", 1);
            } else {
                ctx.count("approximate_modes.noisy_or_fact_equals_exact", 1);
            }
        }
    }
    for kk in [1usize, 3] {
        ctx.add_evals(1);
        if let Ok((out, _)) = run_mode(inst, order_seed, TopKProofs::new(kk), |_, _| ()) {
            for (f, p) in &out.probs {
                let e = exact(f);
                let key = if (p - e).abs() <= TOL {
                    "equals_exact"
                } else if *p < e {
                    "below_exact"
                } else {
                    "above_exact"
                };
                ctx.count(&format!("approximate_modes.top{}_fact_{}", kk, key), 1);
            }
        }
    }
}

fn run_family(ctx: &mut Ctx, family: &str, total: u64, cap: usize, share: f64) {
    ctx.phase(family, total);
    let mut over_share = false;
    while let Some(kc) = if over_share { None } else { ctx.next_case() } {
        // each family gets a share of the workload cap; checked after a completed case
        over_share = !ctx.within(share);
        if over_share {
            ctx.count(&format!("share_of_budget_used_up_in_phase.{}", family), 1);
        }
        let mut r = ctx.rng(kc);
        // size: small cases are frequent, the cap is reached regularly
        let c = if r.chance(1, 2) { cap } else { r.range(3, cap) };
        let s = gen_skel(&mut r, family, c);
        let n = s.uncertain.len();
        if n == 0 || n > 12 || s.rules.is_empty() {
            ctx.count("generator_rejects", 1);
            continue;
        }
        let base = Inst { family: s.family.clone(), certain: s.certain, uncertain: s.uncertain, probs: vec![0.5; n], rules: s.rules };
        if !inst_ok(&base) {
            ctx.count("generator_rejects", 1);
            continue;
        }
        let w = worlds(&base);
        if w.outside_domain {
            ctx.inconclusive("oracle left the unambiguous filter domain");
            continue;
        }
        // --- observations about the case (oracle side) ---
        ctx.count(&format!("cases_with_{}_uncertain_inputs", n), 1);
        ctx.max("max_uncertain_inputs", n as u64);
        ctx.max("max_facts_in_some_world", w.facts.len() as u64);
        ctx.count("worlds_enumerated", 1u64 << n);
        let rec = recursive(&base.rules);
        if rec {
            ctx.count("cases_with_recursive_rules", 1);
        }
        if !w.positive {
            ctx.count("cases_with_negated_atoms", 1);
        }
        let mut case_features: BTreeSet<String> = BTreeSet::new();
        if w.positive {
            let mut maxp = 0;
            let mut shared = 0;
            for fi in 0..w.facts.len() {
                let mp = w.minimal_proofs(fi);
                maxp = maxp.max(mp.len());
                if (0..mp.len()).any(|a| (a + 1..mp.len()).any(|b| mp[a] & mp[b] != 0)) {
                    shared += 1;
                }
            }
            ctx.max("max_minimal_proofs_of_a_fact", maxp as u64);
            ctx.count("facts_whose_minimal_proofs_share_evidence", shared);
            let late = late_improved_facts(&w);
            ctx.count("facts_with_a_proof_arriving_after_the_first_derivation", late as u64);
            if late > 0 {
                ctx.count("cases_with_a_proof_arriving_after_the_first_derivation", 1);
                case_features.insert("late".into());
            }
            if shared > 0 {
                ctx.count("cases_with_shared_evidence", 1);
            }
        }
        for (ui, u) in base.uncertain.iter().enumerate() {
            if let Some(&fi) = w.idx.get(u) {
                if (0..(1usize << n)).any(|m| m >> ui & 1 == 0 && w.holds(fi, m)) {
                    ctx.count("uncertain_inputs_that_are_also_derivable", 1);
                }
            }
        }
        ctx.note("families", &base.family);
        for rl in &base.rules {
            ctx.note("rule_shapes", &format!("{}pos/{}neg/{}filter/{}head", rl.pos.len(), rl.neg.len(), rl.filters.len(), rl.head.len()));
        }

        // --- two probability assignments ---
        let zero_one = family == "zero_one";
        let mut pr = ctx.rng_labeled("probs", kc);
        let dy: Vec<f64> = (0..n).map(|_| if zero_one { *pr.pick(&[0.0, 0.5, 1.0, 0.0, 1.0]) } else { dyadic(&mut pr) }).collect();
        let mut ar: Vec<f64> = vec![];
        for _ in 0..n {
            let p = if zero_one { *pr.pick(&[0.0, 1.0, 0.25]) } else { arbitrary(&mut pr, &ar) };
            ar.push(p);
        }
        let modes = [Mode::Dnf, Mode::Sdd, Mode::MinMax, Mode::Bool];
        let mut nontrivial = false;
        for (label, probs) in [("dyadic", dy), ("arbitrary", ar)] {
            let inst = Inst { probs, ..base.clone() };
            let order_seed = ctx.rng_labeled(&format!("order/{}", label), kc).next_u64();
            let mut st = Stats::default();
            let findings = evaluate(&inst, &w, order_seed, &modes, true, &mut st);
            flush(ctx, &st, label);
            let strict_both = st.strict_comparisons.get("dnf_wmc").copied().unwrap_or(0) > 0 && st.strict_comparisons.get("sdd").copied().unwrap_or(0) > 0;
            if strict_both {
                nontrivial = true;
                ctx.nontrivial(hash_str(&inst_json(&inst).to_string()));
            }
            if inst.probs.iter().any(|p| *p == 0.0) {
                ctx.count("assignments_with_a_probability_0_input", 1);
            }
            if inst.probs.iter().any(|p| *p == 1.0) {
                ctx.count("assignments_with_a_probability_1_input", 1);
            }
            if label == "dyadic" && ctx.wants_sample() && strict_both {
                let weights = world_weights(&inst.probs);
                let table: Vec<String> = w.facts.iter().enumerate().filter(|(_, f)| !w.inputs.contains(*f)).take(6).map(|(fi, f)| format!("{} : {}", lf_str(f), w.prob(fi, &weights))).collect();
                ctx.sample(json!({"case": inst_json(&inst), "oracle_probabilities_of_derived_facts": table, "worlds": 1u64 << n}));
            }
            if label == "dyadic" && w.positive {
                observe_approximate(ctx, &inst, &w, order_seed);
            }
            if !findings.is_empty() {
                report(ctx, &inst, label, order_seed, findings);
            }
        }
        if nontrivial {
            ctx.count(&format!("nontrivial_cases.{}", family), 1);
            if rec {
                ctx.count("nontrivial_cases_with_recursive_rules", 1);
            }
        }
    }
}

fn run(ctx: &mut Ctx) {
    let cap = ctx.by_tier(8usize, 12usize);
    // (family, quick cases, thorough cases, cumulative share of the budget)
    let plan: [(&str, u64, u64, f64); 6] = [
        ("tc", 3200, 8_000, 0.30),
        ("diamond", 4500, 8_000, 0.46),
        ("late", 3000, 5_000, 0.56),
        ("random", 7500, 12_000, 0.76),
        ("negation", 6000, 8_000, 0.93),
        ("zero_one", 3000, 4_000, 1.0),
    ];
    for (family, q, t, share) in plan {
        let total = ctx.by_tier(q, t);
        run_family(ctx, family, total, cap, share);
    }
}

fn main() {
    let mut spec = Spec::new("C06", "exploration", RULE);
    spec.assumptions = &[
        "independent uncertain inputs given through Reasoner::add_tagged_triple with probabilities in [0,1]; a fact is either certain or uncertain, never both; <= 8 (quick) / <= 12 (thorough) uncertain inputs so that all 2^n worlds are enumerated",
        "rules are range-restricted (head and negated variables occur in positive premises), constant predicates except a small share of variable predicates, filters only '=' / '!=' between two bound variables",
        "negation: the documented single negative stratum - rules with negated atoms are evaluated once after the positive fixpoint and their heads unify with no premise of any rule (checked with mdatalog::negative_heads_feed_rules); min-max is not checked on programs with negation (1 - a is possibilistic, outside the property)",
        "AddMultProbability (noisy-or) and TopKProofs (truncated proofs, approximate negation) are approximate by design: observed, never flagged; ExpirationProvenance is not a probability",
        "comparison tolerance 1e-9 for every assignment; smaller non-zero differences are counted (differences_below_1e-9_not_flagged) - with dyadic k/16 probabilities the oracle sums are exact in f64",
        "trusted base: kvcore::mdatalog backtracking evaluator run once per world, weight products, bitset bookkeeping",
    ];
    spec.quick_budget_s = 50;
    spec.thorough_budget_s = 600;
    kvcore::run(spec, run);
}
