//! C07 — Decision-diagram operations are exact, canonical and interruption-safe.
//!
//! Events: every `SddId` returned by `SddManager::{literal, apply, negate, exactly_one}` and
//! their budgeted twins `try_*`, read back through the public API (`wmc` under all 0/1 weight
//! assignments, `enumerate_models`, `wmc` at the real weights, `diff_sdd::wmc_gradient`).
//! Oracle: 256-bit truth tables over <= 8 variable slots maintained by the monitor, a
//! bijective map table <-> handle, weighted sums / derivatives computed directly from the
//! table. Nothing of the oracle calls the engine.
//!
//! Phases
//!   exhaustive3 : 3 variables, each of the 6 introduction orders (all up front or introduced
//!                 between constructions), all 256 functions built by two of three routes
//!                 (DNF / CNF / Shannon), all 256x256x2 apply pairs + 256 negations, half of
//!                 them through the budgeted twins with an unlimited budget.
//!   exhaustive4 : one manager holding all 65536 functions of 4 variables (Shannon construction,
//!                 level by level, variables optionally introduced between levels), all negations,
//!                 sampled left operands against all 65536 right operands.
//!   random      : operation sequences of 20-200 operations over <= 8 variables, variables
//!                 introduced between operations, independent and exclusive-group weights,
//!                 the engine's `phi AND exactly_one(G)` pattern, re-weighting.
//!   faults      : for every budgeted operation of a short program: count its checkpoints N and
//!                 allocations A, then in a fresh manager per point let the deadline expire at
//!                 checkpoint k = 1..N+1 and give node budgets node_count()+0..A+1; after each
//!                 outcome re-verify all earlier handles, repeat the operation unbudgeted,
//!                 run the rest of the program and re-check canonicity of the whole table.
//!   faults_cumulative : one manager runs a whole program where every operation is retried
//!                 with growing budgets until it succeeds (residue of all failed attempts
//!                 stays in the manager).

use kvcore::{guard, hash_str, json, panic_site, Ctx, Rng, Spec, Value};
use shared::diff_sdd::wmc_gradient;
use shared::sdd::{BoolOp, SddBudgetError, SddId, SddManager, SddOperationBudget, VarKind};
use std::cell::Cell;
use std::collections::{BTreeSet, HashMap, HashSet};

const RULE: &str = "exhaustive3: 3 construction-route variants x 6 introduction orders x {all variables first, variables introduced between constructions} x 16 blocks of 16 left operands; every block = 16x256x2 apply pairs + 16 negations on a manager holding all 256 functions (built by two of the routes DNF/CNF/Shannon). exhaustive4: managers holding all 65536 functions of 4 variables (random or, thorough, every introduction order), all 65536 negations, sampled left operands against all 65536 right operands x 2 operators. random: seeded operation programs (20-200 operations, <=8 variables introduced between operations, independent + exclusive-group weights, phi AND exactly_one(G)). faults: every (program, target operation, budget kind, k) with the deadline expiring at the k-th checkpoint (k=1..N+1), refusing only at the k-th checkpoint, or node budget node_count()+j (j=0..A+1), each in a fresh manager; faults_cumulative: every operation of a program retried with growing budgets in one manager. Non-trivial = (a) an operation whose verified result is neither a constant nor one of its operands, distinct by (phase, seed, case, step), one per exhaustive case; (b) an interruption point at which the budget actually fired (deadline callback returned false / NodeBudgetExceeded), distinct by (program, step, kind, k) - the fresh-manager ones are also summed in counters fault.<kind>.fired, the cumulative ones in cumulative.<kind>.fired_outcome_err.";

// ---------------------------------------------------------------------------------------
// truth tables over 8 variable slots

const SLOTS: usize = 8;
const ROWS: usize = 1 << SLOTS;

#[derive(Clone, Copy, PartialEq, Eq, Hash, PartialOrd, Ord, Debug)]
struct Tab([u64; 4]);

impl Tab {
    const FALSE: Tab = Tab([0; 4]);
    const TRUE: Tab = Tab([!0; 4]);
    fn get(&self, m: usize) -> bool {
        self.0[m >> 6] >> (m & 63) & 1 == 1
    }
    fn set(&mut self, m: usize) {
        self.0[m >> 6] |= 1u64 << (m & 63);
    }
    fn var(slot: usize) -> Tab {
        let mut t = Tab::FALSE;
        for m in 0..ROWS {
            if m >> slot & 1 == 1 {
                t.set(m);
            }
        }
        t
    }
    fn lit(slot: usize, pol: bool) -> Tab {
        if pol {
            Tab::var(slot)
        } else {
            Tab::var(slot).not()
        }
    }
    fn and(self, o: Tab) -> Tab {
        Tab([self.0[0] & o.0[0], self.0[1] & o.0[1], self.0[2] & o.0[2], self.0[3] & o.0[3]])
    }
    fn or(self, o: Tab) -> Tab {
        Tab([self.0[0] | o.0[0], self.0[1] | o.0[1], self.0[2] | o.0[2], self.0[3] | o.0[3]])
    }
    fn not(self) -> Tab {
        Tab([!self.0[0], !self.0[1], !self.0[2], !self.0[3]])
    }
    fn op(self, o: Tab, op: BoolOp) -> Tab {
        match op {
            BoolOp::And => self.and(o),
            BoolOp::Or => self.or(o),
        }
    }
    fn exactly_one(slots: &[usize]) -> Tab {
        let mut t = Tab::FALSE;
        for m in 0..ROWS {
            if slots.iter().filter(|&&s| m >> s & 1 == 1).count() == 1 {
                t.set(m);
            }
        }
        t
    }
    /// rows over the registered slots only, first registered slot = leftmost varying slowest
    fn show(&self, reg: &[usize]) -> String {
        let r = reg.len();
        (0..1usize << r)
            .map(|am| {
                let mut m = 0;
                for (i, &s) in reg.iter().enumerate() {
                    if am >> i & 1 == 1 {
                        m |= 1 << s;
                    }
                }
                if self.get(m) {
                    '1'
                } else {
                    '0'
                }
            })
            .collect()
    }
    fn is_const(&self) -> bool {
        *self == Tab::FALSE || *self == Tab::TRUE
    }
}

// ---------------------------------------------------------------------------------------
// programs

#[derive(Clone, Debug)]
enum Step {
    /// register a variable (kind None = independent); `via_prob` uses `ensure_variable`
    NewVar { slot: usize, pos: f64, neg: f64, kind: Option<u32>, via_prob: bool },
    /// change weights of a registered variable; `setters` uses set_pos_weight/set_neg_weight
    Reweight { slot: usize, pos: f64, neg: f64, kind: Option<u32>, setters: bool },
    Lit { slot: usize, pol: bool },
    Apply { a: usize, b: usize, op: BoolOp },
    Neg { a: usize },
    ExactlyOne { slots: Vec<usize> },
}

impl Step {
    fn is_op(&self) -> bool {
        !matches!(self, Step::NewVar { .. } | Step::Reweight { .. })
    }
    fn api(&self, budgeted: bool) -> &'static str {
        match (self, budgeted) {
            (Step::Lit { .. }, false) => "literal",
            (Step::Lit { .. }, true) => "try_literal",
            (Step::Apply { .. }, false) => "apply",
            (Step::Apply { .. }, true) => "try_apply",
            (Step::Neg { .. }, false) => "negate",
            (Step::Neg { .. }, true) => "try_negate",
            (Step::ExactlyOne { .. }, false) => "exactly_one",
            (Step::ExactlyOne { .. }, true) => "try_exactly_one",
            _ => "ensure_variable_weights",
        }
    }
}

#[derive(Clone, Debug)]
struct Prog {
    slot_var: Vec<u32>,
    steps: Vec<Step>,
    /// expected table per handle index; handles 0/1 are FALSE/TRUE, every op step adds one
    tabs: Vec<Tab>,
    exact: bool,
}

fn show_step(s: &Step, sv: &[u32], h: usize) -> String {
    let k = |k: &Option<u32>| match k {
        None => "independent".to_string(),
        Some(g) => format!("exclusive_group({})", g),
    };
    match s {
        Step::NewVar { slot, pos, neg, kind, via_prob } => format!("register x{} pos={} neg={} {}{}", sv[*slot], pos, neg, k(kind), if *via_prob { " via ensure_variable" } else { "" }),
        Step::Reweight { slot, pos, neg, kind, setters } => format!("reweight x{} pos={} neg={} {}{}", sv[*slot], pos, neg, k(kind), if *setters { " via setters" } else { "" }),
        Step::Lit { slot, pol } => format!("h{} = {}x{}", h, if *pol { "" } else { "!" }, sv[*slot]),
        Step::Apply { a, b, op } => format!("h{} = h{} {} h{}", h, a, if *op == BoolOp::And { "AND" } else { "OR" }, b),
        Step::Neg { a } => format!("h{} = NOT h{}", h, a),
        Step::ExactlyOne { slots } => format!("h{} = exactly_one({})", h, slots.iter().map(|s| format!("x{}", sv[*s])).collect::<Vec<_>>().join(",")),
    }
}

fn show_prog(p: &Prog) -> Value {
    let mut out = vec![];
    let mut h = 2;
    for s in &p.steps {
        out.push(show_step(s, &p.slot_var, h));
        if s.is_op() {
            h += 1;
        }
    }
    json!({"h0": "FALSE", "h1": "TRUE", "steps": out})
}

struct Gen<'a> {
    r: &'a mut Rng,
    exact: bool,
    reg: Vec<usize>,
    free: Vec<usize>,
    kind: Vec<Option<u32>>,
    groups: Vec<Vec<usize>>,
    steps: Vec<Step>,
    tabs: Vec<Tab>,
    seen: HashSet<Tab>,
    ops: usize,
}

impl<'a> Gen<'a> {
    fn weight(&mut self) -> f64 {
        if self.exact {
            if self.r.chance(1, 8) {
                *self.r.pick(&[0.0, 1.0])
            } else {
                self.r.range(1, 15) as f64 / 16.0
            }
        } else {
            self.r.f64()
        }
    }
    fn push_op(&mut self, s: Step, t: Tab) -> usize {
        self.steps.push(s);
        self.tabs.push(t);
        self.seen.insert(t);
        self.ops += 1;
        self.tabs.len() - 1
    }
    fn new_var(&mut self, kind: Option<u32>) -> Option<usize> {
        if self.free.is_empty() {
            return None;
        }
        let i = self.r.below(self.free.len());
        let slot = self.free.remove(i);
        let pos = self.weight();
        let (neg, via_prob) = match kind {
            None => (1.0 - pos, self.r.coin()),
            Some(_) => (1.0, false),
        };
        self.steps.push(Step::NewVar { slot, pos, neg, kind, via_prob });
        self.reg.push(slot);
        self.kind[slot] = kind;
        Some(slot)
    }
    fn pick_handle(&mut self) -> usize {
        let n = self.tabs.len();
        if n > 8 && self.r.chance(1, 2) {
            n - 1 - self.r.below(6)
        } else if self.r.chance(1, 12) {
            self.r.below(2)
        } else {
            self.r.below(n)
        }
    }
    fn lit(&mut self) {
        let slot = *self.r.pick(&self.reg.clone());
        let pol = self.r.chance(2, 3);
        self.push_op(Step::Lit { slot, pol }, Tab::lit(slot, pol));
    }
    fn apply(&mut self) {
        let mut best = None;
        for attempt in 0..4 {
            let a = self.pick_handle();
            let b = self.pick_handle();
            let op = if self.r.coin() { BoolOp::And } else { BoolOp::Or };
            let t = self.tabs[a].op(self.tabs[b], op);
            let novel = !t.is_const() && !self.seen.contains(&t);
            best = Some((a, b, op, t));
            if novel || attempt == 3 {
                break;
            }
        }
        let (a, b, op, t) = best.unwrap();
        self.push_op(Step::Apply { a, b, op }, t);
    }
    fn neg(&mut self) {
        let a = self.pick_handle();
        let t = self.tabs[a].not();
        self.push_op(Step::Neg { a }, t);
    }
    fn exactly_one(&mut self) {
        let mut s = self.reg.clone();
        self.r.shuffle(&mut s);
        let n = if self.r.chance(1, 12) { 0 } else if self.r.chance(1, 6) { s.len() } else { self.r.range(1, 4.min(s.len())) };
        s.truncate(n);
        let t = Tab::exactly_one(&s);
        self.push_op(Step::ExactlyOne { slots: s }, t);
    }
    fn reweight(&mut self) {
        let slot = *self.r.pick(&self.reg.clone());
        let pos = self.weight();
        let kind = self.kind[slot];
        let neg = if kind.is_some() { 1.0 } else { 1.0 - pos };
        let setters = self.r.coin();
        self.steps.push(Step::Reweight { slot, pos, neg, kind, setters });
    }
    /// the engine's encoding of an annotated disjunction: members with weights (p, 1),
    /// some formula over them, conjoined with exactly_one(members)
    fn group(&mut self) {
        if self.free.is_empty() {
            return;
        }
        let gid = self.groups.len() as u32;
        let size = self.r.range(1, 3.min(self.free.len()));
        let mut members = vec![];
        for _ in 0..size {
            if let Some(s) = self.new_var(Some(gid)) {
                members.push(s);
            }
        }
        self.groups.push(members.clone());
        let mut phi = if self.r.coin() { 1 } else { self.pick_handle() };
        for &m in &members {
            if self.r.chance(3, 4) {
                let pol = self.r.chance(3, 4);
                let l = self.push_op(Step::Lit { slot: m, pol }, Tab::lit(m, pol));
                let op = if self.r.coin() { BoolOp::And } else { BoolOp::Or };
                let t = self.tabs[phi].op(self.tabs[l], op);
                phi = self.push_op(Step::Apply { a: phi, b: l, op }, t);
            }
        }
        let mut ms = members.clone();
        self.r.shuffle(&mut ms);
        let eo = self.push_op(Step::ExactlyOne { slots: ms }, Tab::exactly_one(&members));
        let t = self.tabs[phi].and(self.tabs[eo]);
        self.push_op(Step::Apply { a: phi, b: eo, op: BoolOp::And }, t);
    }
    /// phi AND exactly_one(G) for every group: the weighted count is defined for the result
    fn engine_pattern(&mut self) {
        let mut h = self.pick_handle();
        for g in self.groups.clone() {
            let eo = self.push_op(Step::ExactlyOne { slots: g.clone() }, Tab::exactly_one(&g));
            let t = self.tabs[h].and(self.tabs[eo]);
            h = self.push_op(Step::Apply { a: h, b: eo, op: BoolOp::And }, t);
        }
    }
}

fn gen_prog(r: &mut Rng, min_slots: usize, max_slots: usize, min_len: usize, max_len: usize) -> Prog {
    let nslots = r.range(min_slots, max_slots);
    // variable ids with gaps, in random order
    let mut ids: Vec<u32> = (0..(nslots + r.range(0, 3)) as u32).collect();
    r.shuffle(&mut ids);
    ids.truncate(nslots);
    let len = r.range(min_len, max_len);
    let exact = r.chance(3, 4);
    let with_groups = r.chance(1, 2);
    let mut g = Gen { r, exact, reg: vec![], free: (0..nslots).collect(), kind: vec![None; nslots], groups: vec![], steps: vec![], tabs: vec![Tab::FALSE, Tab::TRUE], seen: HashSet::new(), ops: 0 };
    g.seen.insert(Tab::FALSE);
    g.seen.insert(Tab::TRUE);
    // how eagerly variables are introduced: early (all near the start) or spread over the program
    let eager = g.r.chance(1, 3);
    g.new_var(None);
    g.lit();
    while g.ops < len {
        let want_var = !g.free.is_empty() && (g.reg.len() < 2 || if eager { g.r.chance(1, 3) } else { g.r.chance(nslots, len.max(nslots * 2)) });
        if want_var {
            if with_groups && g.r.chance(1, 3) {
                g.group();
            } else {
                g.new_var(None);
                if g.r.chance(2, 3) {
                    let slot = *g.reg.last().unwrap();
                    let pol = g.r.coin();
                    g.push_op(Step::Lit { slot, pol }, Tab::lit(slot, pol));
                }
            }
            continue;
        }
        match g.r.weighted(&[3, 12, 3, 1, 1, if g.groups.is_empty() { 0 } else { 1 }]) {
            0 => g.lit(),
            1 => g.apply(),
            2 => g.neg(),
            3 => g.exactly_one(),
            4 => g.reweight(),
            _ => g.engine_pattern(),
        }
    }
    if !g.groups.is_empty() {
        for _ in 0..2 {
            g.engine_pattern();
        }
    }
    Prog { slot_var: ids, steps: g.steps, tabs: g.tabs, exact }
}

// ---------------------------------------------------------------------------------------
// the manager under test + the monitor's model of variables and weights

struct World {
    mgr: SddManager,
    slot_var: Vec<u32>,
    reg: Vec<usize>,
    regmask: usize,
    pos: Vec<f64>,
    neg: Vec<f64>,
    kind: Vec<Option<u32>>,
}

type Problem = (Value, Value);

impl World {
    fn new(slot_var: &[u32]) -> World {
        let n = slot_var.len();
        World { mgr: SddManager::new(), slot_var: slot_var.to_vec(), reg: vec![], regmask: 0, pos: vec![0.0; n], neg: vec![1.0; n], kind: vec![None; n] }
    }
    fn vk(kind: Option<u32>) -> VarKind {
        match kind {
            None => VarKind::Independent,
            Some(g) => VarKind::ExclusiveGroup(g),
        }
    }
    /// NewVar / Reweight
    fn admin(&mut self, s: &Step) -> Result<(), String> {
        match s {
            Step::NewVar { slot, pos, neg, kind, via_prob } => {
                let v = self.slot_var[*slot];
                let m = &mut self.mgr;
                if *via_prob {
                    guard(|| m.ensure_variable(v, *pos))?;
                } else {
                    guard(|| m.ensure_variable_weights(v, *pos, *neg, World::vk(*kind)))?;
                }
                self.reg.push(*slot);
                self.regmask |= 1 << *slot;
                self.pos[*slot] = *pos;
                self.neg[*slot] = *neg;
                self.kind[*slot] = *kind;
            }
            Step::Reweight { slot, pos, neg, kind, setters } => {
                let v = self.slot_var[*slot];
                let m = &mut self.mgr;
                if *setters {
                    guard(|| {
                        m.set_pos_weight(v, *pos);
                        m.set_neg_weight(v, *neg);
                    })?;
                } else {
                    guard(|| m.ensure_variable_weights(v, *pos, *neg, World::vk(*kind)))?;
                }
                self.pos[*slot] = *pos;
                self.neg[*slot] = *neg;
                self.kind[*slot] = *kind;
            }
            _ => {}
        }
        Ok(())
    }
    fn restore_weights(&mut self) {
        for &s in &self.reg {
            self.mgr.set_pos_weight(self.slot_var[s], self.pos[s]);
            self.mgr.set_neg_weight(self.slot_var[s], self.neg[s]);
        }
    }
    /// Truth tables of handles, read through `wmc` under every 0/1 weight assignment of the
    /// registered variables. Err = a count that is neither 0 nor 1, or a panic.
    fn read_tables(&mut self, ids: &[SddId]) -> Result<Vec<Tab>, Problem> {
        let r = self.reg.len();
        let mut out = vec![Tab::FALSE; ids.len()];
        let mut bad: Option<Problem> = None;
        let res = guard(|| {
            'outer: for am in 0..(1usize << r) {
                let mut m = 0usize;
                for (i, &s) in self.reg.iter().enumerate() {
                    let bit = am >> i & 1 == 1;
                    self.mgr.set_pos_weight(self.slot_var[s], if bit { 1.0 } else { 0.0 });
                    self.mgr.set_neg_weight(self.slot_var[s], if bit { 0.0 } else { 1.0 });
                    if bit {
                        m |= 1 << s;
                    }
                }
                for (j, &id) in ids.iter().enumerate() {
                    let v = self.mgr.wmc(id);
                    if v == 1.0 {
                        out[j].set(m);
                    } else if v != 0.0 {
                        let asg: Vec<String> = self.reg.iter().enumerate().map(|(i, &s)| format!("x{}={}", self.slot_var[s], am >> i & 1)).collect();
                        bad = Some((json!({"kind": "count_under_01_weights_not_0_or_1"}), json!({"handle": format!("{:?}", id), "assignment": asg, "wmc": v})));
                        break 'outer;
                    }
                }
            }
        });
        self.restore_weights();
        if let Err(e) = res {
            return Err((json!({"kind": "panic", "api": "wmc", "site": panic_site(&e)}), json!({"panic": e})));
        }
        if let Some(b) = bad {
            return Err(b);
        }
        // extend to the whole universe: unregistered slots are don't-cares
        for t in out.iter_mut() {
            let base = *t;
            for m in 0..ROWS {
                if base.get(m & self.regmask) {
                    t.set(m);
                }
            }
        }
        Ok(out)
    }
    fn w(&self, slot: usize, bit: bool) -> f64 {
        if bit {
            self.pos[slot]
        } else {
            self.neg[slot]
        }
    }
    /// rows over the registered variables
    fn rows(&self) -> impl Iterator<Item = usize> + '_ {
        let mask = self.regmask;
        (0..ROWS).filter(move |m| m & !mask == 0)
    }
    /// truth-table sum of the weights of the models
    fn table_wmc(&self, t: &Tab) -> f64 {
        let mut sum = 0.0;
        for m in self.rows() {
            if t.get(m) {
                let mut p = 1.0;
                for &s in &self.reg {
                    p *= self.w(s, m >> s & 1 == 1);
                }
                sum += p;
            }
        }
        sum
    }
    /// d/d pos(slot) of the truth-table sum (neg = 1-pos for independent, constant for exclusive)
    fn table_grad(&self, t: &Tab, slot: usize) -> f64 {
        let mut s1 = 0.0;
        let mut s0 = 0.0;
        for m in self.rows() {
            if t.get(m) {
                let mut p = 1.0;
                for &s in &self.reg {
                    if s != slot {
                        p *= self.w(s, m >> s & 1 == 1);
                    }
                }
                if m >> slot & 1 == 1 {
                    s1 += p;
                } else {
                    s0 += p;
                }
            }
        }
        match self.kind[slot] {
            None => s1 - s0,
            Some(_) => s1,
        }
    }
    /// The diagram's count is the truth-table sum only when every variable whose two weights
    /// do not add up to 1 (exclusive-group members, neg = 1) is decided in every model:
    /// flipping it must leave the function (this is what `AND exactly_one(G)` guarantees).
    fn wmc_defined(&self, t: &Tab) -> bool {
        for &s in &self.reg {
            if self.kind[s].is_some() {
                for m in self.rows() {
                    if t.get(m) && t.get(m ^ (1 << s)) {
                        return false;
                    }
                }
            }
        }
        true
    }
    fn has_groups(&self) -> bool {
        self.reg.iter().any(|&s| self.kind[s].is_some())
    }
}

fn close(a: f64, b: f64, exact: bool) -> bool {
    if exact {
        a == b
    } else {
        (a - b).abs() <= 1e-9 * (1.0 + a.abs().max(b.abs()))
    }
}

// ---------------------------------------------------------------------------------------
// executing one operation, plain or budgeted

#[derive(Clone, Copy, Debug, PartialEq)]
enum Mode {
    Plain,
    /// deadline callback returns false from its `fail_at`-th call on (usize::MAX = never);
    /// `extra_nodes` = node budget node_count()+j (None = unlimited)
    /// `once`: the callback returns false only at the `fail_at`-th call (a transient refusal)
    Try { fail_at: usize, extra_nodes: Option<usize>, once: bool },
}
const UNLIMITED: Mode = Mode::Try { fail_at: usize::MAX, extra_nodes: None, once: false };

struct Exec {
    res: Result<SddId, SddBudgetError>,
    calls: usize,
    fired: bool,
    calls_after_fire: usize,
    nodes_before: usize,
    nodes_after: usize,
    max_nodes: usize,
}

fn exec_op(w: &mut World, ids: &[SddId], step: &Step, mode: Mode) -> Result<Exec, String> {
    let nodes_before = w.mgr.node_count();
    let calls = Cell::new(0usize);
    let fired = Cell::new(false);
    let after = Cell::new(0usize);
    let (fail_at, max_nodes, once) = match mode {
        Mode::Plain => (usize::MAX, usize::MAX, false),
        Mode::Try { fail_at, extra_nodes, once } => (fail_at, extra_nodes.map(|j| nodes_before + j).unwrap_or(usize::MAX), once),
    };
    let sv = &w.slot_var;
    let mgr = &mut w.mgr;
    let vars: Vec<u32> = match step {
        Step::ExactlyOne { slots } => slots.iter().map(|&s| sv[s]).collect(),
        _ => vec![],
    };
    if !step.is_op() {
        return Err("monitor error: exec_op on an administrative step".to_string());
    }
    let res = guard(|| match mode {
        Mode::Plain => Ok(match step {
            Step::Lit { slot, pol } => mgr.literal(sv[*slot], *pol),
            Step::Apply { a, b, op } => mgr.apply(ids[*a], ids[*b], *op),
            Step::Neg { a } => mgr.negate(ids[*a]),
            Step::ExactlyOne { .. } => mgr.exactly_one(&vars),
            _ => SddId::FALSE,
        }),
        Mode::Try { .. } => {
            let mut cb = || {
                let c = calls.get() + 1;
                calls.set(c);
                if fired.get() {
                    after.set(after.get() + 1);
                }
                if c == fail_at || (!once && c > fail_at) {
                    fired.set(true);
                    false
                } else {
                    true
                }
            };
            let mut budget = SddOperationBudget::new(max_nodes, &mut cb);
            match step {
                Step::Lit { slot, pol } => mgr.try_literal(sv[*slot], *pol, &mut budget),
                Step::Apply { a, b, op } => mgr.try_apply(ids[*a], ids[*b], *op, &mut budget),
                Step::Neg { a } => mgr.try_negate(ids[*a], &mut budget),
                Step::ExactlyOne { .. } => mgr.try_exactly_one(&vars, &mut budget),
                _ => Ok(SddId::FALSE),
            }
        }
    })?;
    Ok(Exec { res, calls: calls.get(), fired: fired.get(), calls_after_fire: after.get(), nodes_before, nodes_after: w.mgr.node_count(), max_nodes })
}

// ---------------------------------------------------------------------------------------
// the bijection table <-> handle and the checks on a result

#[derive(Default)]
struct Book {
    by_tab: HashMap<Tab, SddId>,
    by_id: HashMap<SddId, Tab>,
}

#[derive(Clone, Copy)]
struct Depth {
    wmc: bool,
    grad: bool,
    models: bool,
}
const FULL: Depth = Depth { wmc: true, grad: true, models: true };
const LIGHT: Depth = Depth { wmc: true, grad: false, models: false };

struct Obs {
    counts: Vec<(String, u64)>,
}
impl Obs {
    fn c(&mut self, k: &str) {
        self.counts.push((k.to_string(), 1));
    }
}

/// Check one returned handle against the expected table. `context` says in which situation
/// the operation ran ("plain", "budget_unlimited", "after_exhaustion", …) and goes into the signature.
#[allow(clippy::too_many_arguments)]
fn check_result(w: &mut World, book: &mut Book, id: SddId, exp: Tab, api: &str, context: &str, exact: bool, depth: Depth, probs: &mut Vec<Problem>, obs: &mut Obs) {
    let reg = w.reg.clone();
    // 1. the function
    let got = match book.by_id.get(&id) {
        Some(t) => {
            obs.c("results.handle_already_verified");
            *t
        }
        None => match w.read_tables(&[id]) {
            Ok(t) => {
                obs.c("results.table_read_through_wmc");
                book.by_id.insert(id, t[0]);
                t[0]
            }
            Err((mut s, d)) => {
                s["api"] = json!(api);
                s["context"] = json!(context);
                probs.push((s, d));
                return;
            }
        },
    };
    if got != exp {
        probs.push((json!({"kind": "wrong_function", "api": api, "context": context}), json!({"handle": format!("{:?}", id), "expected_table": exp.show(&reg), "got_table": got.show(&reg), "variables_in_table_order": reg.iter().map(|&s| format!("x{}", w.slot_var[s])).collect::<Vec<_>>()})));
        return;
    }
    // 2. canonicity
    match book.by_tab.get(&exp) {
        Some(&other) if other != id => {
            probs.push((json!({"kind": "equal_functions_different_handles", "api": api, "context": context}), json!({"handle": format!("{:?}", id), "earlier_handle": format!("{:?}", other), "table": exp.show(&reg)})));
        }
        Some(_) => {}
        None => {
            book.by_tab.insert(exp, id);
        }
    }
    // constants must be the reserved handles
    if exp == Tab::FALSE && id != SddId::FALSE || exp == Tab::TRUE && id != SddId::TRUE {
        probs.push((json!({"kind": "constant_function_not_constant_handle", "api": api, "context": context}), json!({"handle": format!("{:?}", id)})));
    }
    // 3. enumerate_models
    if depth.models {
        let mgr = &w.mgr;
        match guard(|| mgr.enumerate_models(id)) {
            Err(e) => probs.push((json!({"kind": "panic", "api": "enumerate_models", "site": panic_site(&e)}), json!({"panic": e}))),
            Ok(models) => {
                let mut t = Tab::FALSE;
                let mut weight = 0usize;
                let mut bad = None;
                for cube in &models {
                    let mut c = Tab::TRUE;
                    let mut free = reg.len();
                    for &(v, pol) in cube {
                        match reg.iter().find(|&&s| w.slot_var[s] == v) {
                            Some(&s) => {
                                c = c.and(Tab::lit(s, pol));
                                free = free.saturating_sub(1);
                            }
                            None => bad = Some(format!("model mentions unregistered variable x{}", v)),
                        }
                    }
                    if c == Tab::FALSE {
                        bad = Some("model contains both polarities of a variable".to_string());
                    }
                    weight += 1 << free;
                    t = t.or(c);
                }
                obs.c("results.enumerate_models_checked");
                if let Some(b) = bad {
                    probs.push((json!({"kind": "enumerate_models_malformed", "context": context}), json!({"handle": format!("{:?}", id), "why": b, "models": format!("{:?}", models)})));
                } else if t != exp {
                    probs.push((json!({"kind": "enumerate_models_differs_from_function", "context": context}), json!({"handle": format!("{:?}", id), "expected_table": exp.show(&reg), "models_table": t.show(&reg), "models": format!("{:?}", models)})));
                } else {
                    let count = w.rows().filter(|&m| exp.get(m)).count();
                    if weight != count {
                        obs.c("results.enumerate_models_overlapping_cubes");
                    }
                }
            }
        }
    }
    // 4. weighted count and gradient at the real weights
    if depth.wmc {
        if !w.wmc_defined(&exp) {
            obs.c("wmc.skipped_exclusive_variable_not_decided_by_function");
            return;
        }
        let mgr = &w.mgr;
        match guard(|| mgr.wmc(id)) {
            Err(e) => probs.push((json!({"kind": "panic", "api": "wmc", "site": panic_site(&e)}), json!({"panic": e}))),
            Ok(v) => {
                let e = w.table_wmc(&exp);
                obs.c("wmc.checked");
                if w.has_groups() {
                    obs.c("wmc.checked_with_exclusive_groups");
                }
                if !close(v, e, exact) {
                    probs.push((json!({"kind": "wmc_differs_from_truth_table_sum", "context": context, "exclusive_groups": w.has_groups()}), json!({"handle": format!("{:?}", id), "table": exp.show(&reg), "wmc": v, "truth_table_sum": e, "exact_dyadic_weights": exact})));
                }
            }
        }
        // a registered variable must have its weights in the manager's tables (public accessors)
        let short = reg.iter().any(|&s| (w.slot_var[s] as usize) >= w.mgr.pos_weight().len() || (w.slot_var[s] as usize) >= w.mgr.neg_weight().len());
        if short {
            probs.push((json!({"kind": "registered_variable_has_no_weight_entry", "context": context}), json!({"registered": reg.iter().map(|&s| w.slot_var[s]).collect::<Vec<_>>(), "pos_weight_len": w.mgr.pos_weight().len(), "neg_weight_len": w.mgr.neg_weight().len()})));
        }
        if depth.grad && !short {
            let before: Vec<(f64, f64)> = reg.iter().map(|&s| (w.mgr.pos_weight()[w.slot_var[s] as usize], w.mgr.neg_weight()[w.slot_var[s] as usize])).collect();
            let mgr = &mut w.mgr;
            match guard(|| wmc_gradient(mgr, id)) {
                Err(e) => probs.push((json!({"kind": "panic", "api": "wmc_gradient", "site": panic_site(&e)}), json!({"panic": e}))),
                Ok(g) => {
                    obs.c("gradient.checked");
                    let after: Vec<(f64, f64)> = reg.iter().map(|&s| (w.mgr.pos_weight()[w.slot_var[s] as usize], w.mgr.neg_weight()[w.slot_var[s] as usize])).collect();
                    if before.iter().zip(&after).any(|(a, b)| a.0.to_bits() != b.0.to_bits() || a.1.to_bits() != b.1.to_bits()) {
                        probs.push((json!({"kind": "wmc_gradient_changed_the_weights"}), json!({"before": format!("{:?}", before), "after": format!("{:?}", after)})));
                        w.restore_weights();
                    }
                    for (&v, _) in g.iter() {
                        if !reg.iter().any(|&s| w.slot_var[s] == v) {
                            probs.push((json!({"kind": "gradient_for_unregistered_variable"}), json!({"variable": v})));
                        }
                    }
                    for &s in &reg {
                        let e = w.table_grad(&exp, s);
                        let got = g.get(&w.slot_var[s]).copied().unwrap_or(0.0);
                        let kind = if w.kind[s].is_some() { "exclusive_group" } else { "independent" };
                        obs.c(if w.kind[s].is_some() { "gradient.components_checked.exclusive_group" } else { "gradient.components_checked.independent" });
                        if e != 0.0 {
                            obs.c("gradient.components_nonzero");
                        }
                        if !close(got, e, exact) {
                            probs.push((json!({"kind": "gradient_differs_from_truth_table_derivative", "variable_kind": kind}), json!({"handle": format!("{:?}", id), "table": exp.show(&reg), "variable": format!("x{}", w.slot_var[s]), "gradient": got, "truth_table_derivative": e, "exact_dyadic_weights": exact})));
                            break;
                        }
                    }
                }
            }
        }
    }
}

/// Re-verify a list of handles against their expected tables (one batched read) and the
/// bijection between them. Returns the number of handles verified.
fn verify_all(w: &mut World, ids: &[SddId], tabs: &[Tab], context: &str, probs: &mut Vec<Problem>) -> usize {
    let reg = w.reg.clone();
    let got = match w.read_tables(ids) {
        Ok(g) => g,
        Err((mut s, d)) => {
            s["context"] = json!(context);
            probs.push((s, d));
            return 0;
        }
    };
    for (i, (g, e)) in got.iter().zip(tabs).enumerate() {
        if g != e {
            probs.push((json!({"kind": "earlier_handle_changed_its_function", "context": context}), json!({"handle_index": i, "handle": format!("{:?}", ids[i]), "expected_table": e.show(&reg), "got_table": g.show(&reg)})));
            return i;
        }
    }
    let mut by_tab: HashMap<Tab, SddId> = HashMap::new();
    for (i, (&id, t)) in ids.iter().zip(tabs).enumerate() {
        if let Some(&o) = by_tab.get(t) {
            if o != id {
                probs.push((json!({"kind": "equal_functions_different_handles", "api": "handle_table", "context": context}), json!({"handle_index": i, "handle": format!("{:?}", id), "earlier_handle": format!("{:?}", o), "table": t.show(&reg)})));
                break;
            }
        } else {
            by_tab.insert(*t, id);
        }
    }
    ids.len()
}

fn flush(ctx: &mut Ctx, probs: &mut Vec<Problem>, obs: &mut Obs, extra: &Value) {
    for (k, n) in obs.counts.drain(..) {
        ctx.count(&k, n);
    }
    for (sig, mut detail) in probs.drain(..) {
        if let (Some(d), Some(e)) = (detail.as_object_mut(), extra.as_object()) {
            for (k, v) in e {
                d.insert(k.clone(), v.clone());
            }
        }
        ctx.violation(sig, detail);
    }
}

fn panic_problem(api: &str, context: &str, e: &str) -> Problem {
    (json!({"kind": "panic", "api": api, "context": context, "site": panic_site(e)}), json!({"panic": e}))
}

// ---------------------------------------------------------------------------------------
// phase exhaustive3

const ROUTES: [&str; 3] = ["dnf", "cnf", "shannon"];
const PERMS3: [[usize; 3]; 6] = [[0, 1, 2], [0, 2, 1], [1, 0, 2], [1, 2, 0], [2, 0, 1], [2, 1, 0]];

/// 3-variable function number t (bit m of t = value at assignment m, bit i of m = slot i)
fn tab3(t: usize) -> Tab {
    let mut x = Tab::FALSE;
    for m in 0..ROWS {
        if t >> (m & 7) & 1 == 1 {
            x.set(m);
        }
    }
    x
}

/// Build function t over `slots` (bit i of an assignment = slots[i]) by one of three routes.
fn build_fn(w: &mut World, slots: &[usize], t: usize, route: usize, evals: &mut u64) -> SddId {
    let n = slots.len();
    let sv = w.slot_var.clone();
    let m = &mut w.mgr;
    let rows = 1usize << n;
    match route {
        0 => {
            // DNF: OR of minterms
            let mut f = SddId::FALSE;
            for a in 0..rows {
                if t >> a & 1 == 1 {
                    let mut c = SddId::TRUE;
                    for (i, &s) in slots.iter().enumerate() {
                        let l = m.literal(sv[s], a >> i & 1 == 1);
                        c = m.apply(c, l, BoolOp::And);
                        *evals += 1;
                    }
                    f = m.apply(f, c, BoolOp::Or);
                    *evals += 1;
                }
            }
            f
        }
        1 => {
            // CNF: AND of maxterms
            let mut f = SddId::TRUE;
            for a in 0..rows {
                if t >> a & 1 == 0 {
                    let mut c = SddId::FALSE;
                    for (i, &s) in slots.iter().enumerate() {
                        let l = m.literal(sv[s], a >> i & 1 == 0);
                        c = m.apply(c, l, BoolOp::Or);
                        *evals += 1;
                    }
                    f = m.apply(f, c, BoolOp::And);
                    *evals += 1;
                }
            }
            f
        }
        _ => {
            // Shannon expansion on the last slot first, with negate for the low branch guard
            fn sh(m: &mut SddManager, sv: &[u32], slots: &[usize], t: usize, evals: &mut u64) -> SddId {
                let n = slots.len();
                if n == 0 {
                    return if t & 1 == 1 { SddId::TRUE } else { SddId::FALSE };
                }
                let half = 1usize << (n - 1);
                let lo_t = t & ((1usize << half) - 1);
                let hi_t = t >> half & ((1usize << half) - 1);
                let lo = sh(m, sv, &slots[..n - 1], lo_t, evals);
                let hi = sh(m, sv, &slots[..n - 1], hi_t, evals);
                let x = m.literal(sv[slots[n - 1]], true);
                let nx = m.negate(x);
                let a = m.apply(x, hi, BoolOp::And);
                let b = m.apply(nx, lo, BoolOp::And);
                *evals += 4;
                m.apply(a, b, BoolOp::Or)
            }
            sh(m, &sv, slots, t, evals)
        }
    }
}

fn phase_exhaustive3(ctx: &mut Ctx) {
    // case = (variant, order, incremental, block); quick: one route pair per case, rotating
    let variants = 3u64;
    ctx.phase("exhaustive3", variants * 6 * 2 * 16);
    while let Some(k) = ctx.next_case() {
        let block = (k % 16) as usize;
        let incremental = (k / 16) % 2 == 1;
        let order = PERMS3[((k / 32) % 6) as usize];
        let variant = (k / 192) as usize;
        let route = ((k % 3) as usize + variant) % 3;
        let route2 = (route + 1) % 3;
        let mut r = ctx.rng(k);
        let mut w = World::new(&[0, 1, 2]);
        let mut probs: Vec<Problem> = vec![];
        let mut obs = Obs { counts: vec![] };
        let mut book = Book::default();
        let mut evals = 0u64;
        let info = json!({"order_of_introduction": order.iter().map(|s| format!("x{}", s)).collect::<Vec<_>>(), "incremental": incremental, "route": ROUTES[route], "block": block});
        let weights: Vec<f64> = (0..3).map(|_| r.range(1, 15) as f64 / 16.0).collect();
        let reg_step = |s: usize| Step::NewVar { slot: s, pos: weights[s], neg: 1.0 - weights[s], kind: None, via_prob: s == 1 };
        let mut h: Vec<SddId> = vec![SddId::FALSE; 256];
        let built = guard(|| {
            if incremental {
                // functions over the first one / two variables exist before the vtree grows
                for n in 1..=3usize {
                    w.admin(&reg_step(order[n - 1])).ok();
                    let slots = &order[..n];
                    for t in 0..(1usize << (1usize << n)) {
                        let id = build_fn(&mut w, slots, t, route, &mut evals);
                        // table of t over these slots
                        let mut exp = Tab::FALSE;
                        for m in 0..ROWS {
                            let mut a = 0;
                            for (i, &s) in slots.iter().enumerate() {
                                if m >> s & 1 == 1 {
                                    a |= 1 << i;
                                }
                            }
                            if t >> a & 1 == 1 {
                                exp.set(m);
                            }
                        }
                        check_result(&mut w, &mut book, id, exp, "apply", if n < 3 { "construction_before_all_variables_exist" } else { "construction" }, true, LIGHT, &mut probs, &mut obs);
                    }
                }
            } else {
                for n in 0..3 {
                    w.admin(&reg_step(order[n])).ok();
                }
            }
            for t in 0..256usize {
                let id = build_fn(&mut w, &[0, 1, 2], t, if incremental { route2 } else { route }, &mut evals);
                check_result(&mut w, &mut book, id, tab3(t), "apply", "construction", true, FULL, &mut probs, &mut obs);
                h[t] = id;
            }
            // a second route must arrive at the same handles
            for t in 0..256usize {
                let id = build_fn(&mut w, &[0, 1, 2], t, route2, &mut evals);
                if id != h[t] {
                    check_result(&mut w, &mut book, id, tab3(t), "apply", "construction_second_route", true, LIGHT, &mut probs, &mut obs);
                }
            }
        });
        if let Err(e) = built {
            probs.push(panic_problem("apply", "construction", &e));
        }
        ctx.add_evals(evals);
        if !probs.is_empty() {
            flush(ctx, &mut probs, &mut obs, &info);
            continue;
        }
        let distinct: BTreeSet<SddId> = h.iter().copied().collect();
        if distinct.len() != 256 {
            ctx.inconclusive("exhaustive3: the 256 base handles are not pairwise distinct although every check passed");
            continue;
        }
        // all pairs of this block
        let mut bs: Vec<usize> = (0..256).collect();
        if variant > 0 || r.coin() {
            r.shuffle(&mut bs);
        }
        let mut n_pairs = 0u64;
        'pairs: for a in block * 16..block * 16 + 16 {
            // negation
            let budgeted = (a + block) % 2 == 1;
            let step = Step::Neg { a: 0 };
            match exec_op(&mut w, &[h[a]], &step, if budgeted { UNLIMITED } else { Mode::Plain }) {
                Err(e) => probs.push(panic_problem(step.api(budgeted), "exhaustive_pairs", &e)),
                Ok(x) => match x.res {
                    Ok(id) => {
                        if id != h[255 ^ a] {
                            check_result(&mut w, &mut book, id, tab3(255 ^ a), step.api(budgeted), "exhaustive_pairs", true, LIGHT, &mut probs, &mut obs);
                            if probs.is_empty() {
                                probs.push((json!({"kind": "monitor_inconsistency"}), json!({})));
                            }
                        }
                    }
                    Err(e) => probs.push((json!({"kind": "exhaustion_reported_with_unlimited_budget", "api": "try_negate"}), json!({"error": format!("{:?}", e)}))),
                },
            }
            ctx.count("exhaustive3.negations", 1);
            for &b in &bs {
                for op in [BoolOp::And, BoolOp::Or] {
                    let budgeted = (a ^ b ^ (op == BoolOp::Or) as usize) & 1 == 1;
                    let step = Step::Apply { a: 0, b: 1, op };
                    let t = if op == BoolOp::And { a & b } else { a | b };
                    n_pairs += 1;
                    match exec_op(&mut w, &[h[a], h[b]], &step, if budgeted { UNLIMITED } else { Mode::Plain }) {
                        Err(e) => probs.push(panic_problem(step.api(budgeted), "exhaustive_pairs", &e)),
                        Ok(x) => match x.res {
                            Ok(id) => {
                                if id != h[t] {
                                    check_result(&mut w, &mut book, id, tab3(t), step.api(budgeted), "exhaustive_pairs", true, LIGHT, &mut probs, &mut obs);
                                    if probs.is_empty() {
                                        probs.push((json!({"kind": "monitor_inconsistency"}), json!({})));
                                    }
                                } else if t != a && t != b && t != 0 && t != 255 {
                                    ctx.count("exhaustive3.pairs_with_new_function", 1);
                                }
                            }
                            Err(e) => probs.push((json!({"kind": "exhaustion_reported_with_unlimited_budget", "api": "try_apply"}), json!({"error": format!("{:?}", e)}))),
                        },
                    }
                    if !probs.is_empty() {
                        let mut info = info.clone();
                        info["left_function"] = json!(format!("{:08b}", a));
                        info["right_function"] = json!(format!("{:08b}", b));
                        info["op"] = json!(format!("{:?}", op));
                        info["function_numbering"] = json!("bit m of the number = value at assignment m, bit i of m = x_i");
                        flush(ctx, &mut probs, &mut obs, &info);
                        break 'pairs;
                    }
                }
            }
        }
        ctx.add_evals(n_pairs + 16);
        ctx.count("exhaustive3.apply_pairs", n_pairs);
        ctx.count(if incremental { "exhaustive3.cases_variables_introduced_between_constructions" } else { "exhaustive3.cases_variables_first" }, 1);
        ctx.note("exhaustive3.orders", &format!("{:?}", order));
        ctx.note("exhaustive3.routes", ROUTES[route]);
        // the manager still answers correctly for every function
        let tabs: Vec<Tab> = (0..256).map(tab3).collect();
        verify_all(&mut w, &h, &tabs, "after_exhaustive_pairs", &mut probs);
        ctx.nontrivial(hash_str(&format!("ex3/{}", k)));
        if ctx.wants_sample() {
            ctx.sample(json!({"case": info, "apply_pairs_checked": n_pairs, "nodes_in_manager": w.mgr.node_count()}));
        }
        ctx.max("exhaustive3.max_nodes_in_manager", w.mgr.node_count() as u64);
        flush(ctx, &mut probs, &mut obs, &info);
    }
}

// ---------------------------------------------------------------------------------------
// phase exhaustive4: all 65536 functions of 4 variables in one manager, sampled left operands
// against every right operand

/// table of function number t over `slots` (bit a of t = value at local assignment a, bit i of a = slots[i])
fn tab_local(slots: &[usize], t: usize) -> Tab {
    let mut exp = Tab::FALSE;
    for m in 0..ROWS {
        let mut a = 0;
        for (i, &s) in slots.iter().enumerate() {
            if m >> s & 1 == 1 {
                a |= 1 << i;
            }
        }
        if t >> a & 1 == 1 {
            exp.set(m);
        }
    }
    exp
}

fn perm4(mut i: usize) -> [usize; 4] {
    let mut pool = vec![0usize, 1, 2, 3];
    let mut out = [0usize; 4];
    for (j, f) in [6usize, 2, 1, 1].iter().enumerate() {
        out[j] = pool.remove(i / f);
        i %= f;
    }
    out
}

fn phase_exhaustive4(ctx: &mut Ctx) {
    let lefts = ctx.by_tier(12usize, 32usize);
    ctx.phase("exhaustive4", ctx.by_tier(8, 24 * 2 * 4));
    while let Some(k) = ctx.next_case() {
        if !ctx.within(0.3) {
            ctx.count("phase_stopped_at_its_share_of_the_budget.exhaustive4", 1);
            break;
        }
        let mut r = ctx.rng(k);
        let order = perm4(if ctx.thorough() { (k % 24) as usize } else { r.below(24) });
        let incremental = if ctx.thorough() { (k / 24) % 2 == 1 } else { r.coin() };
        let sv = [0u32, 1, 2, 3];
        let mut w = World::new(&sv);
        let mut probs: Vec<Problem> = vec![];
        let mut obs = Obs { counts: vec![] };
        let info = json!({"order_of_introduction": order.iter().map(|s| format!("x{}", s)).collect::<Vec<_>>(), "variables_introduced_between_constructions": incremental, "function_numbering": "bit a of the number = value at assignment a, bit i of a = i-th introduced variable"});
        let weights: Vec<f64> = (0..4).map(|_| r.range(1, 15) as f64 / 16.0).collect();
        let reg_step = |s: usize| Step::NewVar { slot: s, pos: weights[s], neg: 1.0 - weights[s], kind: None, via_prob: false };
        let mut evals = 0u64;
        // level n holds every function of the first n introduced variables, by Shannon expansion
        let mut levels: Vec<Vec<SddId>> = vec![vec![SddId::FALSE, SddId::TRUE]];
        let built = guard(|| {
            if !incremental {
                for n in 0..4 {
                    w.admin(&reg_step(order[n])).ok();
                }
            }
            for n in 1..=4usize {
                if incremental {
                    w.admin(&reg_step(order[n - 1])).ok();
                }
                let half = 1usize << (n - 1);
                let mask = (1usize << half) - 1;
                let x = w.mgr.literal(sv[order[n - 1]], true);
                let nx = w.mgr.negate(x);
                let prev = levels[n - 1].clone();
                let mut cur = Vec::with_capacity(1usize << (1usize << n));
                for t in 0..(1usize << (1usize << n)) {
                    let lo = prev[t & mask];
                    let hi = prev[t >> half & mask];
                    let a = w.mgr.apply(x, hi, BoolOp::And);
                    let b = w.mgr.apply(nx, lo, BoolOp::And);
                    cur.push(w.mgr.apply(a, b, BoolOp::Or));
                    evals += 3;
                }
                levels.push(cur);
            }
        });
        ctx.add_evals(evals);
        if let Err(e) = built {
            probs.push(panic_problem("apply", "construction", &e));
            flush(ctx, &mut probs, &mut obs, &info);
            continue;
        }
        // every level: tables read back, bijection (a function of fewer variables must be the same
        // handle at every level it appears in)
        let mut book = Book::default();
        for n in 1..=4usize {
            let ids = levels[n].clone();
            match w.read_tables(&ids) {
                Err((s, d)) => probs.push((s, d)),
                Ok(tabs) => {
                    for (t, (id, got)) in ids.iter().zip(&tabs).enumerate() {
                        let exp = tab_local(&order[..n], t);
                        if *got != exp {
                            probs.push((json!({"kind": "wrong_function", "api": "apply", "context": "construction"}), json!({"level": n, "function": format!("{:b}", t), "handle": format!("{:?}", id), "expected_table": exp.show(&w.reg), "got_table": got.show(&w.reg)})));
                            break;
                        }
                        match book.by_tab.get(&exp) {
                            Some(&o) if o != *id => {
                                probs.push((json!({"kind": "equal_functions_different_handles", "api": "apply", "context": "construction"}), json!({"level": n, "function": format!("{:b}", t), "handle": format!("{:?}", id), "earlier_handle": format!("{:?}", o)})));
                                break;
                            }
                            Some(_) => {}
                            None => {
                                book.by_tab.insert(exp, *id);
                            }
                        }
                        if let Some(o) = book.by_id.insert(*id, exp) {
                            if o != exp {
                                probs.push((json!({"kind": "one_handle_for_two_functions", "api": "apply", "context": "construction"}), json!({"level": n, "function": format!("{:b}", t), "handle": format!("{:?}", id)})));
                                break;
                            }
                        }
                    }
                }
            }
            if !probs.is_empty() {
                break;
            }
        }
        if !probs.is_empty() {
            flush(ctx, &mut probs, &mut obs, &info);
            continue;
        }
        ctx.count("exhaustive4.functions_verified", 65536);
        let h = levels[4].clone();
        // weighted count / gradient / models on a sample
        for _ in 0..128 {
            let t = r.below(65536);
            check_result(&mut w, &mut book, h[t], tab_local(&order, t), "apply", "construction", true, FULL, &mut probs, &mut obs);
        }
        // all negations
        for a in 0..65536usize {
            let budgeted = a & 1 == 1;
            match exec_op(&mut w, &[h[a]], &Step::Neg { a: 0 }, if budgeted { UNLIMITED } else { Mode::Plain }) {
                Err(e) => probs.push(panic_problem("negate", "exhaustive_pairs", &e)),
                Ok(x) => {
                    if x.res != Ok(h[0xFFFF ^ a]) {
                        match x.res {
                            Ok(id) => check_result(&mut w, &mut book, id, tab_local(&order, 0xFFFF ^ a), if budgeted { "try_negate" } else { "negate" }, "exhaustive_pairs", true, LIGHT, &mut probs, &mut obs),
                            Err(e) => probs.push((json!({"kind": "exhaustion_reported_with_unlimited_budget", "api": "try_negate"}), json!({"error": format!("{:?}", e)}))),
                        }
                    }
                }
            }
            if !probs.is_empty() {
                break;
            }
        }
        ctx.add_evals(65536);
        ctx.count("exhaustive4.negations", 65536);
        let mut n_pairs = 0u64;
        'outer: for li in 0..lefts {
            if !probs.is_empty() {
                break;
            }
            // left operands: mostly functions that depend on all four variables
            let a = r.below(65536);
            let rev = li % 2 == 1;
            for bi in 0..65536usize {
                let b = if rev { 65535 - bi } else { bi };
                for op in [BoolOp::And, BoolOp::Or] {
                    let budgeted = (a ^ b ^ (op == BoolOp::Or) as usize) & 1 == 1;
                    let step = Step::Apply { a: 0, b: 1, op };
                    let t = if op == BoolOp::And { a & b } else { a | b };
                    n_pairs += 1;
                    match exec_op(&mut w, &[h[a], h[b]], &step, if budgeted { UNLIMITED } else { Mode::Plain }) {
                        Err(e) => probs.push(panic_problem(step.api(budgeted), "exhaustive_pairs", &e)),
                        Ok(x) => match x.res {
                            Ok(id) => {
                                if id != h[t] {
                                    check_result(&mut w, &mut book, id, tab_local(&order, t), step.api(budgeted), "exhaustive_pairs", true, LIGHT, &mut probs, &mut obs);
                                    if probs.is_empty() {
                                        probs.push((json!({"kind": "monitor_inconsistency"}), json!({})));
                                    }
                                }
                            }
                            Err(e) => probs.push((json!({"kind": "exhaustion_reported_with_unlimited_budget", "api": "try_apply"}), json!({"error": format!("{:?}", e)}))),
                        },
                    }
                    if !probs.is_empty() {
                        let mut info = info.clone();
                        info["left_function"] = json!(format!("{:016b}", a));
                        info["right_function"] = json!(format!("{:016b}", b));
                        info["op"] = json!(format!("{:?}", op));
                        flush(ctx, &mut probs, &mut obs, &info);
                        break 'outer;
                    }
                }
            }
            ctx.count("exhaustive4.left_operands_against_all_65536_right_operands", 1);
        }
        ctx.add_evals(n_pairs);
        ctx.count("exhaustive4.apply_pairs", n_pairs);
        ctx.note("exhaustive4.orders", &format!("{:?}", order));
        ctx.max("exhaustive4.max_nodes_in_manager", w.mgr.node_count() as u64);
        ctx.nontrivial(hash_str(&format!("ex4/{}/{}", ctx.seed(), k)));
        if ctx.wants_sample() {
            ctx.sample(json!({"case": info, "apply_pairs_checked": n_pairs, "nodes_in_manager": w.mgr.node_count()}));
        }
        flush(ctx, &mut probs, &mut obs, &info);
    }
}

// ---------------------------------------------------------------------------------------
// phase random

/// Run a whole program with full checks. Returns the handles, or None when a problem was found.
fn run_program(ctx: &mut Ctx, p: &Prog, label: &str, k: u64, twins: bool) -> Option<(World, Vec<SddId>)> {
    let mut r = ctx.rng_labeled("modes", k);
    let mut w = World::new(&p.slot_var);
    let mut ids = vec![SddId::FALSE, SddId::TRUE];
    let mut book = Book::default();
    book.by_tab.insert(Tab::FALSE, SddId::FALSE);
    book.by_tab.insert(Tab::TRUE, SddId::TRUE);
    book.by_id.insert(SddId::FALSE, Tab::FALSE);
    book.by_id.insert(SddId::TRUE, Tab::TRUE);
    let mut probs: Vec<Problem> = vec![];
    let mut obs = Obs { counts: vec![] };
    let mut evals = 0u64;
    let mut ok = true;
    for (si, s) in p.steps.iter().enumerate() {
        if !s.is_op() {
            if let Err(e) = w.admin(s) {
                probs.push(panic_problem("ensure_variable_weights", "plain", &e));
            } else {
                ctx.count(if matches!(s, Step::NewVar { .. }) { "random.variables_introduced" } else { "random.reweightings" }, 1);
                if matches!(s, Step::NewVar { .. }) && ids.len() > 3 {
                    ctx.count("random.variables_introduced_after_operations", 1);
                }
                // every earlier handle keeps its function when the vtree grows / weights change
                if r.chance(1, 3) {
                    let tabs = p.tabs[..ids.len()].to_vec();
                    verify_all(&mut w, &ids, &tabs, "after_variable_introduction", &mut probs);
                }
            }
        } else {
            let h = ids.len();
            let budgeted = twins && r.coin();
            let exp = p.tabs[h];
            evals += 1;
            match exec_op(&mut w, &ids, s, if budgeted { UNLIMITED } else { Mode::Plain }) {
                Err(e) => probs.push(panic_problem(s.api(budgeted), "plain", &e)),
                Ok(x) => match x.res {
                    Err(e) => probs.push((json!({"kind": "exhaustion_reported_with_unlimited_budget", "api": s.api(true)}), json!({"error": format!("{:?}", e)}))),
                    Ok(id) => {
                        ctx.count(&format!("ops.{}", s.api(budgeted)), 1);
                        let depth = if r.chance(1, 2) { FULL } else { Depth { wmc: true, grad: false, models: true } };
                        check_result(&mut w, &mut book, id, exp, s.api(budgeted), if budgeted { "budget_unlimited" } else { "plain" }, p.exact, depth, &mut probs, &mut obs);
                        ids.push(id);
                        let operand = match s {
                            Step::Apply { a, b, .. } => exp == p.tabs[*a] || exp == p.tabs[*b],
                            _ => false,
                        };
                        if !exp.is_const() && !operand {
                            ctx.nontrivial(hash_str(&format!("{}/{}/{}/{}", label, ctx.seed(), k, si)));
                        }
                        // the twin must return the same handle
                        if twins && probs.is_empty() && r.chance(1, 4) {
                            evals += 1;
                            match exec_op(&mut w, &ids, s, if budgeted { Mode::Plain } else { UNLIMITED }) {
                                Err(e) => probs.push(panic_problem(s.api(!budgeted), "twin", &e)),
                                Ok(y) => {
                                    ctx.count("twins.compared", 1);
                                    if y.res != Ok(id) {
                                        probs.push((json!({"kind": "budgeted_and_unbudgeted_twin_return_different_handles", "api": s.api(true)}), json!({"first": format!("{:?}", id), "twin": format!("{:?}", y.res)})));
                                    }
                                }
                            }
                        }
                    }
                },
            }
        }
        if !probs.is_empty() {
            let info = json!({"program": show_prog(p), "failing_step": show_step(s, &p.slot_var, ids.len()), "step_index": si});
            flush(ctx, &mut probs, &mut obs, &info);
            ok = false;
            break;
        }
    }
    ctx.add_evals(evals);
    if ok {
        // at the end every handle is read again and the bijection re-checked over the whole table
        let tabs = p.tabs[..ids.len()].to_vec();
        let n = verify_all(&mut w, &ids, &tabs, "end_of_program", &mut probs);
        ctx.count("handles_reverified_at_end_of_program", n as u64);
        if !probs.is_empty() {
            ok = false;
        }
        let info = json!({"program": show_prog(p)});
        flush(ctx, &mut probs, &mut obs, &info);
    }
    ctx.max("max_variables", w.reg.len() as u64);
    ctx.max("max_nodes_in_manager", w.mgr.node_count() as u64);
    ctx.max("max_operations_in_program", (ids.len() - 2) as u64);
    if ok {
        Some((w, ids))
    } else {
        None
    }
}

fn phase_random(ctx: &mut Ctx) {
    ctx.phase("random", ctx.by_tier(2_000, 100_000));
    while let Some(k) = ctx.next_case() {
        if !ctx.within(0.55) {
            ctx.count("phase_stopped_at_its_share_of_the_budget.random", 1);
            break;
        }
        let mut r = ctx.rng(k);
        let big = r.chance(1, 2);
        let p = if big { gen_prog(&mut r, 6, 8, 20, 200) } else { gen_prog(&mut r, 2, 5, 20, 120) };
        if ctx.wants_sample() {
            let mut s = show_prog(&p);
            if let Some(a) = s["steps"].as_array_mut() {
                a.truncate(40);
            }
            ctx.sample(json!({"program_first_40_steps": s, "operations": p.tabs.len() - 2, "exact_dyadic_weights": p.exact}));
        }
        ctx.count(if p.exact { "random.programs_exact_dyadic_weights" } else { "random.programs_arbitrary_f64_weights" }, 1);
        run_program(ctx, &p, "random", k, true);
    }
}

// ---------------------------------------------------------------------------------------
// phase faults

/// fresh manager, steps [0, upto) executed unbudgeted
fn replay_prefix(p: &Prog, upto: usize) -> Result<(World, Vec<SddId>), String> {
    let mut w = World::new(&p.slot_var);
    let mut ids = vec![SddId::FALSE, SddId::TRUE];
    for s in &p.steps[..upto] {
        if s.is_op() {
            let x = exec_op(&mut w, &ids, s, Mode::Plain)?;
            ids.push(x.res.map_err(|e| format!("{:?}", e))?);
        } else {
            w.admin(s)?;
        }
    }
    Ok((w, ids))
}

/// Everything that must hold after a budgeted attempt at step `t` ended (Ok or Err).
#[allow(clippy::too_many_arguments)]
fn after_attempt(ctx: &mut Ctx, p: &Prog, t: usize, w: &mut World, ids: &mut Vec<SddId>, x: &Exec, context: &str, probs: &mut Vec<Problem>, obs: &mut Obs) {
    let s = &p.steps[t];
    let h = ids.len();
    let exp = p.tabs[h];
    // node budget respected
    if x.nodes_after > x.max_nodes.max(x.nodes_before) {
        probs.push((json!({"kind": "node_budget_crossed", "api": s.api(true)}), json!({"nodes_before": x.nodes_before, "nodes_after": x.nodes_after, "max_nodes": x.max_nodes})));
    }
    // 1. earlier handles
    let tabs = p.tabs[..h].to_vec();
    let n = verify_all(w, ids, &tabs, context, probs);
    ctx.count("fault.earlier_handles_reverified", n as u64);
    if !probs.is_empty() {
        return;
    }
    let mut book = Book::default();
    for (id, tb) in ids.iter().zip(&tabs) {
        book.by_id.insert(*id, *tb);
        book.by_tab.insert(*tb, *id);
    }
    // 2. a successful budgeted result is the function
    if let Ok(id) = x.res {
        check_result(w, &mut book, id, exp, s.api(true), if x.fired { "ok_although_budget_fired" } else { "budget_sufficient" }, p.exact, LIGHT, probs, obs);
        if !probs.is_empty() {
            return;
        }
    }
    // 3. the operation repeated unbudgeted
    let redo = match exec_op(w, ids, s, Mode::Plain) {
        Err(e) => {
            probs.push(panic_problem(s.api(false), context, &e));
            return;
        }
        Ok(y) => y.res.unwrap_or(SddId::FALSE),
    };
    ctx.add_evals(1);
    check_result(w, &mut book, redo, exp, s.api(false), context, p.exact, LIGHT, probs, obs);
    if !probs.is_empty() {
        return;
    }
    if let Ok(id) = x.res {
        if id != redo {
            probs.push((json!({"kind": "budgeted_and_unbudgeted_twin_return_different_handles", "api": s.api(true)}), json!({"budgeted": format!("{:?}", id), "unbudgeted": format!("{:?}", redo)})));
            return;
        }
    }
    // 4. and budgeted again with no limit
    match exec_op(w, ids, s, UNLIMITED) {
        Err(e) => {
            probs.push(panic_problem(s.api(true), context, &e));
            return;
        }
        Ok(y) => {
            ctx.add_evals(1);
            if y.res != Ok(redo) {
                probs.push((json!({"kind": "budgeted_and_unbudgeted_twin_return_different_handles", "api": s.api(true), "context": context}), json!({"budgeted_unlimited": format!("{:?}", y.res), "unbudgeted": format!("{:?}", redo)})));
                return;
            }
        }
    }
    ids.push(redo);
    // 5. the rest of the program
    for s2 in &p.steps[t + 1..] {
        if s2.is_op() {
            let h2 = ids.len();
            match exec_op(w, ids, s2, Mode::Plain) {
                Err(e) => {
                    probs.push(panic_problem(s2.api(false), context, &e));
                    return;
                }
                Ok(y) => {
                    let id = y.res.unwrap_or(SddId::FALSE);
                    ctx.add_evals(1);
                    ctx.count("fault.later_operations_checked", 1);
                    check_result(w, &mut book, id, p.tabs[h2], s2.api(false), &format!("later_operation_{}", context), p.exact, LIGHT, probs, obs);
                    if !probs.is_empty() {
                        return;
                    }
                    ids.push(id);
                }
            }
        } else if let Err(e) = w.admin(s2) {
            probs.push(panic_problem("ensure_variable_weights", context, &e));
            return;
        }
    }
    // 6. the whole handle table once more
    let tabs = p.tabs[..ids.len()].to_vec();
    verify_all(w, ids, &tabs, &format!("end_of_program_{}", context), probs);
}

fn ks_for(n: usize, cap: usize, r: &mut Rng) -> Vec<usize> {
    // k = 1..=n+1, all of them up to the cap, otherwise the first cap/2, the last 4 and a random rest
    let all: Vec<usize> = (1..=n + 1).collect();
    if all.len() <= cap {
        return all;
    }
    let mut set: BTreeSet<usize> = (1..=cap / 2).collect();
    for k in n.saturating_sub(2)..=n + 1 {
        set.insert(k);
    }
    while set.len() < cap {
        set.insert(r.range(1, n + 1));
    }
    set.into_iter().collect()
}

fn phase_faults(ctx: &mut Ctx) {
    let cap = ctx.by_tier(64usize, 400usize);
    ctx.phase("faults", ctx.by_tier(400, 20_000));
    while let Some(k) = ctx.next_case() {
        let mut r = ctx.rng(k);
        let p = match r.below(4) {
            0 => gen_prog(&mut r, 5, 7, 10, 26),
            _ => gen_prog(&mut r, 3, 5, 8, 22),
        };
        let ph = hash_str(&show_prog(&p).to_string());
        // the program itself must be fine before it is used for fault injection
        if run_program(ctx, &p, "faults_baseline", k, false).is_none() {
            continue;
        }
        if ctx.wants_sample() {
            ctx.sample(json!({"program": show_prog(&p), "exact_dyadic_weights": p.exact}));
        }
        let targets: Vec<usize> = (0..p.steps.len()).filter(|&i| p.steps[i].is_op()).collect();
        let mut probs: Vec<Problem> = vec![];
        let mut obs = Obs { counts: vec![] };
        'targets: for &t in &targets {
            let s = &p.steps[t];
            // count checkpoints and allocations with an unlimited budget
            let (n_ck, n_alloc) = match replay_prefix(&p, t) {
                Err(e) => {
                    probs.push(panic_problem(s.api(false), "prefix_replay", &e));
                    (0, 0)
                }
                Ok((mut w, mut ids)) => match exec_op(&mut w, &ids, s, UNLIMITED) {
                    Err(e) => {
                        probs.push(panic_problem(s.api(true), "budget_unlimited", &e));
                        (0, 0)
                    }
                    Ok(x) => {
                        ctx.add_evals(1);
                        let (n, a) = (x.calls, x.nodes_after - x.nodes_before);
                        if x.res.is_err() {
                            probs.push((json!({"kind": "exhaustion_reported_with_unlimited_budget", "api": s.api(true)}), json!({"error": format!("{:?}", x.res)})));
                        } else {
                            after_attempt(ctx, &p, t, &mut w, &mut ids, &x, "after_unlimited_budget", &mut probs, &mut obs);
                        }
                        (n, a)
                    }
                },
            };
            ctx.max("fault.max_checkpoints_of_one_operation", n_ck as u64);
            ctx.max("fault.max_allocations_of_one_operation", n_alloc as u64);
            ctx.count("fault.target_operations", 1);
            ctx.count(&format!("fault.target_operations.{}", s.api(true)), 1);
            if n_ck + 1 > cap {
                ctx.count("fault.operations_with_sampled_k", 1);
            }
            // deadline expiring at the k-th checkpoint
            let mut points: Vec<(&str, usize)> = ks_for(n_ck, cap, &mut r).into_iter().map(|k| ("deadline", k)).collect();
            // node budgets node_count()+j
            points.extend((0..=(n_alloc + 1).min(cap)).map(|j| ("nodes", j)));
            // a transient refusal at the k-th checkpoint only (a swallowed error would go on)
            points.extend(ks_for(n_ck.saturating_sub(1), cap / 2, &mut r).into_iter().map(|k| ("deadline_once", k)));
            for (kind, kk) in points {
                if !probs.is_empty() {
                    break;
                }
                let (mut w, mut ids) = match replay_prefix(&p, t) {
                    Ok(x) => x,
                    Err(e) => {
                        probs.push(panic_problem(s.api(false), "prefix_replay", &e));
                        break;
                    }
                };
                let mode = match kind {
                    "deadline" => Mode::Try { fail_at: kk, extra_nodes: None, once: false },
                    "deadline_once" => Mode::Try { fail_at: kk, extra_nodes: None, once: true },
                    _ => Mode::Try { fail_at: usize::MAX, extra_nodes: Some(kk), once: false },
                };
                ctx.add_evals(1);
                let x = match exec_op(&mut w, &ids, s, mode) {
                    Ok(x) => x,
                    Err(e) => {
                        probs.push(panic_problem(s.api(true), &format!("{}_budget", kind), &e));
                        break;
                    }
                };
                let budget_fired = x.fired || x.res == Err(SddBudgetError::NodeBudgetExceeded);
                let context;
                let is_deadline = kind != "nodes";
                match &x.res {
                    Err(e) => {
                        context = match kind {
                            "deadline" => "after_deadline_exhaustion",
                            "deadline_once" => "after_transient_deadline_refusal",
                            _ => "after_node_budget_exhaustion",
                        };
                        ctx.count(&format!("fault.{}.outcome_err", kind), 1);
                        if is_deadline {
                            if !x.fired {
                                probs.push((json!({"kind": "exhaustion_reported_although_budget_not_exhausted", "api": s.api(true), "budget": kind}), json!({"error": format!("{:?}", e), "k": kk, "checkpoints_called": x.calls})));
                            }
                            if *e != SddBudgetError::DeadlineExceeded {
                                ctx.count("fault.deadline.reported_as_node_budget", 1);
                            }
                        } else {
                            if kk > n_alloc {
                                // more room than the unbudgeted run needed (allocation counts may vary a
                                // little between managers because of hash-map iteration order in compress)
                                ctx.count("fault.nodes.err_with_budget_above_counted_need", 1);
                            }
                            if *e != SddBudgetError::NodeBudgetExceeded {
                                probs.push((json!({"kind": "exhaustion_reported_although_budget_not_exhausted", "api": s.api(true), "budget": "nodes"}), json!({"error": format!("{:?}", e), "extra_nodes": kk})));
                            }
                        }
                    }
                    Ok(_) => {
                        context = "after_budgeted_success";
                        if x.fired {
                            ctx.count(&format!("fault.{}.outcome_ok_although_fired", kind), 1);
                        } else {
                            ctx.count(&format!("fault.{}.outcome_ok_not_fired", kind), 1);
                        }
                    }
                }
                if budget_fired {
                    ctx.count(&format!("fault.{}.fired", kind), 1);
                    ctx.count(&format!("fault.fired_in.{}", s.api(true)), 1);
                    ctx.nontrivial(hash_str(&format!("fault/{:x}/{}/{}/{}", ph, t, kind, kk)));
                    if x.calls_after_fire > 0 {
                        ctx.count("fault.deadline.checkpoints_polled_after_expiry", x.calls_after_fire as u64);
                    }
                }
                after_attempt(ctx, &p, t, &mut w, &mut ids, &x, context, &mut probs, &mut obs);
                if !probs.is_empty() {
                    let info = json!({"program": show_prog(&p), "interrupted_step": show_step(s, &p.slot_var, 2 + p.steps[..t].iter().filter(|s| s.is_op()).count()), "step_index": t, "budget": kind, "k_or_extra_nodes": kk, "checkpoints_of_operation": n_ck, "allocations_of_operation": n_alloc, "outcome": format!("{:?}", x.res)});
                    flush(ctx, &mut probs, &mut obs, &info);
                    break 'targets;
                }
            }
            if !probs.is_empty() {
                let info = json!({"program": show_prog(&p), "step_index": t});
                flush(ctx, &mut probs, &mut obs, &info);
                break;
            }
            flush(ctx, &mut probs, &mut obs, &json!({}));
            if !ctx.time_left() {
                ctx.count("fault.programs_cut_short_by_budget", 1);
                break;
            }
        }
    }
}

/// One manager runs the whole program; every operation is retried with growing budgets.
fn phase_faults_cumulative(ctx: &mut Ctx) {
    ctx.phase("faults_cumulative", ctx.by_tier(2_400, 160_000));
    while let Some(k) = ctx.next_case() {
        if !ctx.within(0.65) {
            ctx.count("phase_stopped_at_its_share_of_the_budget.faults_cumulative", 1);
            break;
        }
        let mut r = ctx.rng(k);
        let p = if r.coin() { gen_prog(&mut r, 5, 8, 15, 60) } else { gen_prog(&mut r, 3, 5, 10, 40) };
        let ph = hash_str(&show_prog(&p).to_string());
        let mut w = World::new(&p.slot_var);
        let mut ids = vec![SddId::FALSE, SddId::TRUE];
        let mut book = Book::default();
        book.by_tab.insert(Tab::FALSE, SddId::FALSE);
        book.by_tab.insert(Tab::TRUE, SddId::TRUE);
        book.by_id.insert(SddId::FALSE, Tab::FALSE);
        book.by_id.insert(SddId::TRUE, Tab::TRUE);
        let mut probs: Vec<Problem> = vec![];
        let mut obs = Obs { counts: vec![] };
        let mut info = json!({"program": show_prog(&p)});
        'steps: for (si, s) in p.steps.iter().enumerate() {
            if !s.is_op() {
                if let Err(e) = w.admin(s) {
                    probs.push(panic_problem("ensure_variable_weights", "cumulative", &e));
                    break;
                }
                continue;
            }
            let h = ids.len();
            let by_nodes = r.chance(1, 3);
            let once = !by_nodes && r.chance(1, 3);
            let mut kk = if by_nodes { 0 } else { 1 };
            let stride = if r.chance(1, 4) { r.range(2, 5) } else { 1 };
            loop {
                let mode = if by_nodes { Mode::Try { fail_at: usize::MAX, extra_nodes: Some(kk), once: false } } else { Mode::Try { fail_at: kk, extra_nodes: None, once } };
                ctx.add_evals(1);
                let x = match exec_op(&mut w, &ids, s, mode) {
                    Ok(x) => x,
                    Err(e) => {
                        probs.push(panic_problem(s.api(true), "cumulative_retries", &e));
                        info["step_index"] = json!(si);
                        break 'steps;
                    }
                };
                if x.nodes_after > x.max_nodes.max(x.nodes_before) {
                    probs.push((json!({"kind": "node_budget_crossed", "api": s.api(true)}), json!({"nodes_before": x.nodes_before, "nodes_after": x.nodes_after, "max_nodes": x.max_nodes})));
                }
                match x.res {
                    Err(e) => {
                        let legit = x.fired || e == SddBudgetError::NodeBudgetExceeded && by_nodes;
                        if !legit {
                            probs.push((json!({"kind": "exhaustion_reported_although_budget_not_exhausted", "api": s.api(true), "budget": if by_nodes { "nodes" } else { "deadline" }}), json!({"error": format!("{:?}", e), "k": kk})));
                        }
                                                ctx.count(if by_nodes { "cumulative.nodes.fired_outcome_err" } else if once { "cumulative.deadline_once.fired_outcome_err" } else { "cumulative.deadline.fired_outcome_err" }, 1);
                        ctx.nontrivial(hash_str(&format!("cum/{:x}/{}/{}/{}", ph, si, by_nodes, kk)));
                        if kk > 5_000 {
                            probs.push((json!({"kind": "retries_with_growing_budget_never_succeed", "api": s.api(true)}), json!({"k": kk})));
                        }
                    }
                    Ok(id) => {
                        ctx.count(if by_nodes { "cumulative.nodes.outcome_ok" } else if once { "cumulative.deadline_once.outcome_ok" } else { "cumulative.deadline.outcome_ok" }, 1);
                        ctx.max("cumulative.max_retries_of_one_operation", (kk / stride) as u64);
                        check_result(&mut w, &mut book, id, p.tabs[h], s.api(true), "after_cumulative_retries", p.exact, Depth { wmc: true, grad: false, models: true }, &mut probs, &mut obs);
                        if probs.is_empty() && r.chance(1, 3) {
                            // the unbudgeted twin agrees
                            if let Ok(y) = exec_op(&mut w, &ids, s, Mode::Plain) {
                                ctx.add_evals(1);
                                if y.res != Ok(id) {
                                    probs.push((json!({"kind": "budgeted_and_unbudgeted_twin_return_different_handles", "api": s.api(true), "context": "after_cumulative_retries"}), json!({"budgeted": format!("{:?}", id), "unbudgeted": format!("{:?}", y.res)})));
                                }
                            }
                        }
                        ids.push(id);
                        break;
                    }
                }
                if !probs.is_empty() {
                    info["step_index"] = json!(si);
                    info["failing_step"] = json!(show_step(s, &p.slot_var, h));
                    break 'steps;
                }
                kk += stride;
            }
            if !probs.is_empty() {
                info["step_index"] = json!(si);
                info["failing_step"] = json!(show_step(s, &p.slot_var, h));
                break;
            }
        }
        if probs.is_empty() {
            let tabs = p.tabs[..ids.len()].to_vec();
            let n = verify_all(&mut w, &ids, &tabs, "end_of_cumulative_program", &mut probs);
            ctx.count("cumulative.handles_reverified_at_end", n as u64);
            // replay everything unbudgeted in the same manager: identical handles
            if probs.is_empty() {
                let mut again = vec![SddId::FALSE, SddId::TRUE];
                for s in p.steps.iter().filter(|s| s.is_op()) {
                    match exec_op(&mut w, &again, s, Mode::Plain) {
                        Ok(y) => again.push(y.res.unwrap_or(SddId::FALSE)),
                        Err(e) => {
                            probs.push(panic_problem(s.api(false), "replay_after_cumulative", &e));
                            break;
                        }
                    }
                }
                ctx.add_evals(again.len() as u64);
                if probs.is_empty() && again != ids {
                    let i = again.iter().zip(&ids).position(|(a, b)| a != b).unwrap_or(0);
                    probs.push((json!({"kind": "budgeted_and_unbudgeted_twin_return_different_handles", "context": "replay_after_cumulative"}), json!({"handle_index": i})));
                }
            }
        }
        ctx.max("max_nodes_in_manager", w.mgr.node_count() as u64);
        flush(ctx, &mut probs, &mut obs, &info);
    }
}

fn run(ctx: &mut Ctx) {
    // work_ms.* only documents how the work was distributed; it never decides anything
    let phases: [(&str, fn(&mut Ctx)); 5] = [("exhaustive3", phase_exhaustive3), ("exhaustive4", phase_exhaustive4), ("random", phase_random), ("faults_cumulative", phase_faults_cumulative), ("faults", phase_faults)];
    for (name, f) in phases {
        let t = std::time::Instant::now();
        f(ctx);
        ctx.count(&format!("work_ms.{}", name), t.elapsed().as_millis() as u64);
    }
}

fn main() {
    let mut spec = Spec::new("C07", "fault_enumeration", RULE);
    spec.assumptions = &[
        "variables are registered (ensure_variable / ensure_variable_weights) before they are used in literal / exactly_one; exactly_one gets distinct variables",
        "only right-linear vtrees are reachable through the public API (every new variable becomes the new top variable)",
        "weights: independent variables have neg = 1 - pos, exclusive-group variables have neg = 1 (the two documented encodings); dyadic k/16 weights are compared exactly, arbitrary f64 weights with relative tolerance 1e-9",
        "wmc / wmc_gradient are compared with the truth-table sum only for functions that decide every exclusive-group variable in every model (what `AND exactly_one(G)` guarantees); other functions are still checked for their truth table, canonicity and models",
        "the deadline is modelled as a callback that returns false from its k-th call on (an expired deadline stays expired); kind deadline_once additionally refuses only at the k-th call (transient refusal: an error swallowed inside an operation would otherwise be masked by the next checkpoint)",
        "a successful budgeted operation must leave node_count() <= max(max_nodes, node_count() before) (read as part of 'reports exhaustion')",
        "SddManager is not Clone: every interruption point of the `faults` phase re-creates the manager by replaying the program prefix; hash-map iteration order inside compress may make checkpoint counts differ slightly between managers, so whether a budget fired is observed, not assumed",
        "trusted base: 256-bit truth tables and direct weighted sums in this file",
    ];
    spec.quick_budget_s = 60;
    spec.thorough_budget_s = 600;
    kvcore::run(spec, run);
}
