//! C05 — Rule materialisation computes exactly the least model of the program.
//!
//! Events: for one generated (facts, rules) pair, the fact store and the returned list of
//! `Reasoner::{infer_new_facts_naive, infer_new_facts_semi_naive,
//! infer_new_facts_semi_naive_parallel, infer_new_facts_with_provenance(BooleanProvenance)}`,
//! each in a fresh Reasoner, under three insertion orders, followed by a second run on the
//! same Reasoner.
//!
//! Oracle: `kvcore::mdatalog::stratified_model` (naive bottom-up least fixpoint, one negative
//! pass) on a canonical encoding of the program that shares nothing with the engine's
//! dictionary; the comparison is on decoded strings.  A second, differently written evaluator
//! in this file (depth-first matching, deterministic work counter) bounds the scope (cases
//! whose evaluation needs more than a fixed number of match steps are skipped and counted)
//! and is cross-checked against M-DATALOG on every case.
//!
//! When a store differs from the model the cause is *established*, not guessed: the oracle
//! is re-run on the program restricted / relaxed by every subset of the deviation classes
//! that occur in the program (rules with > 2 premises removed, rules with a variable
//! predicate removed, filters removed, negative premises removed); the smallest subset that
//! explains the store names the cause(s).  Anything that no subset explains is reported as
//! `model_differs / unexplained`.

use datalog::reasoning::Reasoner;
use kvcore::mdatalog::{self, Fact, Subst};
use kvcore::{guard, hash_str, json, panic_site, Ctx, Rng, Spec, Value};
use shared::provenance::BooleanProvenance;
use shared::rule::{FilterCondition, Rule};
use shared::terms::{Term, TriplePattern};
use shared::triple::Triple;
use std::collections::{BTreeMap, BTreeSet, HashSet};

const RULE: &str = "four generators: join_shapes (1-2 rules of 1-4 premises drawn from a pattern alphabet with constants / repeated variables / variable predicates in every position over a dense fact set), recursion (randomised templates: transitive closure left/right/non-linear, symmetric, even/odd mutual recursion, same-generation, sub-property via variable predicate, constant-anchored reachability, 3- and 4-premise chains, over chain/cycle/tree/random graphs), bulk (1050-1500 triples of one predicate with selective 1-3 premise rules, so that the engine's chunked parallel probe is exercised) and mixed (1-4 rules, 1-4 premises, 1-3 conclusions, numeric filters, one negative stratum, 0-40 facts over 4-8 constants incl. numeric objects); every case x 4 strategies x 3 orders (as generated / facts+rules shuffled / rules first, premises+conclusions shuffled) x 2 runs. Non-trivial = the oracle model contains a derived fact AND (some fact has derivation height >= 2 OR a rule with >= 2 premises derives a non-input fact); distinct by hash of (facts, rules).";

// ---------------------------------------------------------------------------------------
// lexical programs

#[derive(Clone, Debug, PartialEq, Eq, Hash, PartialOrd, Ord)]
enum PT {
    V(String),
    C(String),
}
type Pat = (PT, PT, PT);
type Lex = (String, String, String);

#[derive(Clone, Debug, PartialEq, Eq)]
struct LFilter {
    var: String,
    op: String,
    val: String,
    val_is_var: bool,
}

#[derive(Clone, Debug, PartialEq, Eq)]
struct LRule {
    prem: Vec<Pat>,
    neg: Vec<Pat>,
    filters: Vec<LFilter>,
    concl: Vec<Pat>,
}

#[derive(Clone, Debug, PartialEq, Eq)]
struct Case {
    facts: Vec<Lex>,
    rules: Vec<LRule>,
}

fn v(s: &str) -> PT {
    PT::V(s.to_string())
}
fn c(s: &str) -> PT {
    PT::C(s.to_string())
}

fn pt_str(t: &PT) -> String {
    match t {
        PT::V(v) => format!("?{}", v),
        PT::C(c) => c.clone(),
    }
}
fn pat_str(p: &Pat) -> String {
    format!("{} {} {}", pt_str(&p.0), pt_str(&p.1), pt_str(&p.2))
}
fn rule_str(r: &LRule) -> String {
    let mut b: Vec<String> = r.prem.iter().map(pat_str).collect();
    for n in &r.neg {
        b.push(format!("NOT({})", pat_str(n)));
    }
    for f in &r.filters {
        b.push(format!("FILTER(?{} {} {}{})", f.var, f.op, if f.val_is_var { "?" } else { "" }, f.val));
    }
    format!("{} => {}", b.join(" , "), r.concl.iter().map(pat_str).collect::<Vec<_>>().join(" , "))
}
fn case_json(cs: &Case) -> Value {
    json!({
        "facts": cs.facts.iter().map(|(s, p, o)| format!("{} {} {}", s, p, o)).collect::<Vec<_>>(),
        "rules": cs.rules.iter().map(rule_str).collect::<Vec<_>>(),
    })
}
fn lex_str(t: &Lex) -> String {
    format!("{} {} {}", t.0, t.1, t.2)
}

fn pat_vars(p: &Pat) -> Vec<&str> {
    [&p.0, &p.1, &p.2].into_iter().filter_map(|t| if let PT::V(v) = t { Some(v.as_str()) } else { None }).collect()
}
fn rule_is_safe(r: &LRule) -> bool {
    if r.prem.is_empty() || r.concl.is_empty() {
        return false;
    }
    let bound: BTreeSet<&str> = r.prem.iter().flat_map(pat_vars).collect();
    r.concl.iter().chain(r.neg.iter()).flat_map(pat_vars).all(|x| bound.contains(x)) && r.filters.iter().all(|f| bound.contains(f.var.as_str()) && (!f.val_is_var || bound.contains(f.val.as_str())))
}

fn enc_term(t: &PT, enc: &mut dyn FnMut(&str) -> u32) -> Term {
    match t {
        PT::V(v) => Term::Variable(v.clone()),
        PT::C(c) => Term::Constant(enc(c)),
    }
}
fn enc_pat(p: &Pat, enc: &mut dyn FnMut(&str) -> u32) -> TriplePattern {
    (enc_term(&p.0, enc), enc_term(&p.1, enc), enc_term(&p.2, enc))
}
fn enc_rule(r: &LRule, enc: &mut dyn FnMut(&str) -> u32) -> Rule {
    Rule {
        premise: r.prem.iter().map(|p| enc_pat(p, enc)).collect(),
        negative_premise: r.neg.iter().map(|p| enc_pat(p, enc)).collect(),
        filters: r.filters.iter().map(|f| FilterCondition { variable: f.var.clone(), operator: f.op.clone(), value: f.val.clone() }).collect(),
        conclusion: r.concl.iter().map(|p| enc_pat(p, enc)).collect(),
    }
}

// ---------------------------------------------------------------------------------------
// oracle side: canonical encoding, scope-bounding evaluator, M-DATALOG

/// Canonical term table of a case: sorted constant strings, id = rank.  Unrelated to the
/// ids the engine's dictionary hands out.
struct Table {
    names: Vec<String>,
    ids: BTreeMap<String, u32>,
}
impl Table {
    fn of(cs: &Case) -> Table {
        let mut set: BTreeSet<String> = BTreeSet::new();
        for (s, p, o) in &cs.facts {
            set.insert(s.clone());
            set.insert(p.clone());
            set.insert(o.clone());
        }
        for r in &cs.rules {
            for p in r.prem.iter().chain(r.neg.iter()).chain(r.concl.iter()) {
                for t in [&p.0, &p.1, &p.2] {
                    if let PT::C(c) = t {
                        set.insert(c.clone());
                    }
                }
            }
        }
        let names: Vec<String> = set.into_iter().collect();
        let ids = names.iter().enumerate().map(|(i, n)| (n.clone(), i as u32)).collect();
        Table { names, ids }
    }
    fn id(&self, s: &str) -> u32 {
        *self.ids.get(s).expect("constant in table")
    }
    fn lex(&self, f: &Fact) -> Lex {
        (self.names[f.0 as usize].clone(), self.names[f.1 as usize].clone(), self.names[f.2 as usize].clone())
    }
    fn rules(&self, rules: &[LRule]) -> Vec<Rule> {
        rules.iter().map(|r| enc_rule(r, &mut |s| self.id(s))).collect()
    }
    fn input(&self, cs: &Case) -> BTreeSet<Fact> {
        cs.facts.iter().map(|(s, p, o)| (self.id(s), self.id(p), self.id(o))).collect()
    }
}

fn unify(t: &Term, val: u32, env: &mut Subst, added: &mut Vec<String>) -> bool {
    match t {
        Term::Constant(c) => *c == val,
        Term::Variable(n) => match env.get(n) {
            Some(&b) => b == val,
            None => {
                env.insert(n.clone(), val);
                added.push(n.clone());
                true
            }
        },
        Term::QuotedTriple(_) => false,
    }
}

/// depth-first enumeration of the substitutions satisfying `prem`; false = work cap exceeded
fn dfs(prem: &[TriplePattern], i: usize, facts: &[Fact], env: &mut Subst, out: &mut Vec<Subst>, work: &mut u64, cap: u64) -> bool {
    if i == prem.len() {
        out.push(env.clone());
        return true;
    }
    let p = &prem[i];
    for &(s, pr, o) in facts {
        *work += 1;
        if *work > cap {
            return false;
        }
        let mut added: Vec<String> = vec![];
        let ok = unify(&p.0, s, env, &mut added) && unify(&p.1, pr, env, &mut added) && unify(&p.2, o, env, &mut added);
        let cont = if ok { dfs(prem, i + 1, facts, env, out, work, cap) } else { true };
        for a in &added {
            env.remove(a);
        }
        if !cont {
            return false;
        }
    }
    true
}

fn inst(p: &TriplePattern, s: &Subst) -> Option<Fact> {
    let g = |t: &Term| match t {
        Term::Constant(c) => Some(*c),
        Term::Variable(v) => s.get(v).copied(),
        Term::QuotedTriple(_) => None,
    };
    Some((g(&p.0)?, g(&p.1)?, g(&p.2)?))
}

struct Bounded {
    facts: BTreeSet<Fact>,
    outside: bool,
    work: u64,
}

/// Own evaluator (positive fixpoint, then one pass of the rules with negative premises
/// against that fixpoint), with a deterministic work cap.  None = cap exceeded.
fn bounded_model(rules: &[Rule], input: &BTreeSet<Fact>, decode: &dyn Fn(u32) -> Option<String>, cap: u64) -> Option<Bounded> {
    let mut m = Bounded { facts: input.clone(), outside: false, work: 0 };
    let pos: Vec<&Rule> = rules.iter().filter(|r| r.negative_premise.is_empty()).collect();
    let neg: Vec<&Rule> = rules.iter().filter(|r| !r.negative_premise.is_empty()).collect();
    let step = |rs: &[&Rule], m: &mut Bounded, with_neg: bool| -> Option<BTreeSet<Fact>> {
        let fv: Vec<Fact> = m.facts.iter().copied().collect();
        let mut new = BTreeSet::new();
        for r in rs {
            let mut sols = vec![];
            let mut env = Subst::new();
            if !dfs(&r.premise, 0, &fv, &mut env, &mut sols, &mut m.work, cap) {
                return None;
            }
            'sol: for s in sols {
                for f in &r.filters {
                    match mdatalog::eval_filter(f, &s, decode) {
                        Some(true) => {}
                        Some(false) => continue 'sol,
                        None => {
                            m.outside = true;
                            continue 'sol;
                        }
                    }
                }
                if with_neg {
                    for np in &r.negative_premise {
                        match inst(np, &s) {
                            Some(nf) => {
                                if m.facts.contains(&nf) {
                                    continue 'sol;
                                }
                            }
                            None => {
                                m.outside = true;
                                continue 'sol;
                            }
                        }
                    }
                }
                for cn in &r.conclusion {
                    match inst(cn, &s) {
                        Some(f) => {
                            if !m.facts.contains(&f) {
                                new.insert(f);
                            }
                        }
                        None => m.outside = true,
                    }
                }
            }
        }
        Some(new)
    };
    loop {
        let new = step(&pos, &mut m, false)?;
        if new.is_empty() {
            break;
        }
        m.facts.extend(new);
    }
    if !neg.is_empty() {
        let new = step(&neg, &mut m, true)?;
        m.facts.extend(new);
    }
    Some(m)
}

enum Scope<T> {
    Ok(T),
    OverCap,
    OutsideDomain,
    OracleDisagree(String),
}

struct ModelOut {
    facts: BTreeSet<Fact>,
    model: mdatalog::Model,
    work: u64,
}

/// The expected store for `rules` over the facts of `cs`: M-DATALOG, after the bounded
/// evaluator has established that the case is inside the scope; both must agree.
fn model_of(tb: &Table, cs: &Case, rules: &[LRule], cap: u64) -> Scope<ModelOut> {
    let er = tb.rules(rules);
    let input = tb.input(cs);
    let decode = |id: u32| tb.names.get(id as usize).cloned();
    let b = match bounded_model(&er, &input, &decode, cap) {
        Some(b) => b,
        None => return Scope::OverCap,
    };
    let m = mdatalog::stratified_model(&er, &input, &decode);
    if m.facts != b.facts || m.outside_domain != b.outside {
        let d1: Vec<String> = m.facts.difference(&b.facts).take(3).map(|f| lex_str(&tb.lex(f))).collect();
        let d2: Vec<String> = b.facts.difference(&m.facts).take(3).map(|f| lex_str(&tb.lex(f))).collect();
        return Scope::OracleDisagree(format!("M-DATALOG and the bounded evaluator disagree: only in M-DATALOG {:?}, only in bounded {:?}, outside_domain {} vs {}", d1, d2, m.outside_domain, b.outside));
    }
    if m.outside_domain {
        return Scope::OutsideDomain;
    }
    Scope::Ok(ModelOut { facts: b.facts, model: m, work: b.work })
}

struct Expect {
    tb: Table,
    input: BTreeSet<Lex>,
    model: BTreeSet<Lex>,
    max_height: u32,
    nontrivial: bool,
    work: u64,
}

fn expect_of(cs: &Case, cap: u64) -> Scope<Expect> {
    let tb = Table::of(cs);
    let mo = match model_of(&tb, cs, &cs.rules, cap) {
        Scope::Ok(m) => m,
        Scope::OverCap => return Scope::OverCap,
        Scope::OutsideDomain => return Scope::OutsideDomain,
        Scope::OracleDisagree(e) => return Scope::OracleDisagree(e),
    };
    let input_f = tb.input(cs);
    let max_height = mo.model.height.values().copied().max().unwrap_or(0);
    let derived = mo.facts.len() > input_f.len();
    // does a rule with >= 2 premises derive a non-input fact?
    let mut multi = false;
    if derived && max_height < 2 {
        let er = tb.rules(&cs.rules);
        let decode = |id: u32| tb.names.get(id as usize).cloned();
        'r: for r in er.iter().filter(|r| r.premise.len() >= 2) {
            for s in mdatalog::solutions(&r.premise, &mo.facts) {
                if !r.filters.iter().all(|f| mdatalog::eval_filter(f, &s, &decode) == Some(true)) {
                    continue;
                }
                if r.negative_premise.iter().any(|np| mdatalog::instantiate(np, &s).map_or(true, |nf| mo.facts.contains(&nf))) {
                    continue;
                }
                if r.conclusion.iter().filter_map(|cn| mdatalog::instantiate(cn, &s)).any(|f| !input_f.contains(&f)) {
                    multi = true;
                    break 'r;
                }
            }
        }
    }
    let input = input_f.iter().map(|f| tb.lex(f)).collect();
    let model = mo.facts.iter().map(|f| tb.lex(f)).collect();
    Scope::Ok(Expect { tb, input, model, max_height, nontrivial: derived && (max_height >= 2 || multi), work: mo.work })
}

// ---------------------------------------------------------------------------------------
// engine side

#[derive(Clone, Copy, PartialEq, Eq, Debug)]
enum Strat {
    Naive,
    SemiNaive,
    Parallel,
    Provenance,
}
const STRATS: [Strat; 4] = [Strat::Naive, Strat::SemiNaive, Strat::Parallel, Strat::Provenance];
impl Strat {
    fn name(self) -> &'static str {
        match self {
            Strat::Naive => "naive",
            Strat::SemiNaive => "semi_naive",
            Strat::Parallel => "parallel",
            Strat::Provenance => "provenance",
        }
    }
}

fn infer(re: &mut Reasoner, st: Strat) -> Vec<Triple> {
    match st {
        Strat::Naive => re.infer_new_facts_naive(),
        Strat::SemiNaive => re.infer_new_facts_semi_naive(),
        Strat::Parallel => re.infer_new_facts_semi_naive_parallel(),
        Strat::Provenance => re.infer_new_facts_with_provenance(BooleanProvenance).0,
    }
}

struct EngineRun {
    before: BTreeSet<Lex>,
    returned: Vec<Lex>,
    store: BTreeSet<Lex>,
    returned2: Vec<Lex>,
    store2: BTreeSet<Lex>,
}

const N_VARIANTS: usize = 3;

/// Build a fresh Reasoner for the case in one of three orders and run the strategy twice.
fn engine(cs: &Case, st: Strat, variant: usize, order: &mut Rng) -> Result<EngineRun, String> {
    let mut facts = cs.facts.clone();
    let mut rules = cs.rules.clone();
    if variant >= 1 {
        order.shuffle(&mut facts);
        order.shuffle(&mut rules);
    }
    if variant >= 2 {
        for r in rules.iter_mut() {
            order.shuffle(&mut r.prem);
            order.shuffle(&mut r.concl);
            order.shuffle(&mut r.neg);
            order.shuffle(&mut r.filters);
        }
    }
    let mut re = Reasoner::new();
    let add_rules = |re: &mut Reasoner| {
        for r in &rules {
            let dict = re.dictionary.clone();
            let rule = enc_rule(r, &mut |s| dict.write().unwrap().encode(s));
            re.add_rule(rule);
        }
    };
    if variant >= 2 {
        add_rules(&mut re);
    }
    for (s, p, o) in &facts {
        re.add_abox_triple(s, p, o);
    }
    if variant < 2 {
        add_rules(&mut re);
    }
    let snap = |re: &Reasoner| -> Vec<Triple> { re.dataset_index.query(None, None, None) };
    let before_ids = snap(&re);
    let (re, r1, s1, r2, s2) = guard(move || {
        let mut re = re;
        let r1 = infer(&mut re, st);
        let s1 = snap(&re);
        let r2 = infer(&mut re, st);
        let s2 = snap(&re);
        (re, r1, s1, r2, s2)
    })?;
    let dict = re.dictionary.read().unwrap();
    let d = |id: u32| dict.decode(id).map(|s| s.to_string()).unwrap_or_else(|| format!("<undecodable:{}>", id));
    let lx = |t: &Triple| (d(t.subject), d(t.predicate), d(t.object));
    Ok(EngineRun {
        before: before_ids.iter().map(lx).collect(),
        returned: r1.iter().map(lx).collect(),
        store: s1.iter().map(lx).collect(),
        returned2: r2.iter().map(lx).collect(),
        store2: s2.iter().map(lx).collect(),
    })
}

// ---------------------------------------------------------------------------------------
// attribution of a deviating store

const CL_GT2: &str = "rule_with_more_than_two_premises";
const CL_VARPRED: &str = "variable_predicate_premise";
const CL_FILTERS: &str = "filters_ignored";
const CL_NEG: &str = "negative_premise_ignored";

fn has_varpred(r: &LRule) -> bool {
    r.prem.iter().any(|p| matches!(p.1, PT::V(_)))
}
fn all_varpred(r: &LRule) -> bool {
    r.prem.iter().all(|p| matches!(p.1, PT::V(_)))
}

/// deviation classes that occur in the program, in the fixed order used to break ties
fn classes_present(cs: &Case) -> Vec<&'static str> {
    let mut out = vec![];
    if cs.rules.iter().any(|r| !r.neg.is_empty()) {
        out.push(CL_NEG);
    }
    if cs.rules.iter().any(|r| r.prem.len() > 2) {
        out.push(CL_GT2);
    }
    if cs.rules.iter().any(has_varpred) {
        out.push(CL_VARPRED);
    }
    if cs.rules.iter().any(|r| !r.filters.is_empty()) {
        out.push(CL_FILTERS);
    }
    out
}

/// program as evaluated by an engine that has the deviations in `d`
/// (`drop_mixed`: also remove rules that have a variable predicate in only some premises)
fn deviated_rules(cs: &Case, d: &[&str], drop_mixed: bool) -> Vec<LRule> {
    let mut out = vec![];
    for r in &cs.rules {
        if d.contains(&CL_GT2) && r.prem.len() > 2 {
            continue;
        }
        if d.contains(&CL_VARPRED) && (all_varpred(r) || (drop_mixed && has_varpred(r))) {
            continue;
        }
        let mut r = r.clone();
        if d.contains(&CL_FILTERS) {
            r.filters.clear();
        }
        if d.contains(&CL_NEG) {
            r.neg.clear();
        }
        out.push(r);
    }
    out
}

enum Attribution {
    /// the chosen smallest explanation, and the other explanations of the same size
    Causes(Vec<&'static str>, Vec<Vec<&'static str>>),
    Unexplained,
    WorkCap,
}

/// Smallest set D of deviation classes (D contains `forced`) such that
/// model(lower_D) <= got <= model(upper_D).  Dropping rules and ignoring filters / the final
/// negative pass are monotone, so the bounds are sound; they coincide (exact equality is
/// demanded) unless a rule mixes constant and variable predicates.  Among explanations of
/// the same size an exact one is preferred to a bounded one, then the fixed class order
/// (negation, > 2 premises, variable predicate, filters) decides; the alternatives are
/// returned for the witness.
fn attribute(cs: &Case, exp: &Expect, got: &BTreeSet<Lex>, cap: u64, forced: &[&'static str]) -> Attribution {
    let free: Vec<&'static str> = classes_present(cs).into_iter().filter(|c| !forced.contains(c)).collect();
    let n = free.len();
    let mut subsets: Vec<Vec<&'static str>> = (0u32..(1u32 << n))
        .map(|m| {
            let mut d: Vec<&'static str> = forced.to_vec();
            d.extend((0..n).filter(|i| m >> i & 1 == 1).map(|i| free[i]));
            d
        })
        .collect();
    subsets.sort_by_key(|s| s.len());
    let mut capped = false;
    // (explanation, exact?)
    let mut fits: Vec<(Vec<&'static str>, bool)> = vec![];
    for d in subsets {
        if let Some((f, _)) = fits.first() {
            if d.len() > f.len() {
                break;
            }
        }
        let lexset = |rules: &[LRule]| -> Option<BTreeSet<Lex>> {
            match model_of(&exp.tb, cs, rules, cap.saturating_mul(20)) {
                Scope::Ok(m) => Some(m.facts.iter().map(|f| exp.tb.lex(f)).collect()),
                _ => None,
            }
        };
        let upper_rules = deviated_rules(cs, &d, false);
        let lower_rules = deviated_rules(cs, &d, true);
        let upper = match lexset(&upper_rules) {
            Some(u) => u,
            None => {
                capped = true;
                continue;
            }
        };
        if *got == upper {
            fits.push((d, true));
        } else if lower_rules != upper_rules {
            // negation is never generated together with variable predicates, so the
            // program between lower and upper is positive and monotone
            if cs.rules.iter().any(|r| !r.neg.is_empty()) && !d.contains(&CL_NEG) {
                continue;
            }
            match lexset(&lower_rules) {
                Some(l) => {
                    if l.is_subset(got) && got.is_subset(&upper) {
                        fits.push((d, false));
                    }
                }
                None => capped = true,
            }
        }
    }
    if fits.is_empty() {
        return if capped { Attribution::WorkCap } else { Attribution::Unexplained };
    }
    let pick = fits.iter().position(|(_, exact)| *exact).unwrap_or(0);
    let (d, _) = fits.remove(pick);
    Attribution::Causes(d, fits.into_iter().map(|(d, _)| d).collect())
}

fn kind_of(cause: &str) -> &'static str {
    if cause == CL_GT2 || cause == CL_VARPRED {
        "facts_missing"
    } else {
        "facts_not_entailed"
    }
}

// ---------------------------------------------------------------------------------------
// one (case, strategy) evaluation

struct Issue {
    sig: Value,
    detail: Value,
}

#[derive(Default)]
struct Eval {
    issues: Vec<Issue>,
    runs: u64,
    exact: u64,
    deviating: Vec<String>,
    second_runs_silent: u64,
}

fn sample<'a>(it: impl Iterator<Item = &'a Lex>) -> Vec<String> {
    it.take(5).map(lex_str).collect()
}

fn evaluate(cs: &Case, exp: &Expect, st: Strat, order_base: u64, cap: u64) -> Eval {
    let mut ev = Eval::default();
    let sname = st.name();
    let push = |ev: &mut Eval, sig: Value, detail: Value| {
        if !ev.issues.iter().any(|i| i.sig == sig) {
            ev.issues.push(Issue { sig, detail });
        }
    };
    let mut stores: Vec<(usize, BTreeSet<Lex>)> = vec![];
    let mut attributed: Vec<(BTreeSet<Lex>, String)> = vec![];
    for variant in 0..N_VARIANTS {
        let mut order = Rng::new(order_base ^ ((variant as u64 + 1).wrapping_mul(0x9E37_79B9_7F4A_7C15)));
        ev.runs += 1;
        let run = match engine(cs, st, variant, &mut order) {
            Ok(r) => r,
            Err(e) => {
                push(&mut ev, json!({"kind": "panic", "strategy": sname, "site": panic_site(&e)}), json!({"variant": variant, "panic": e}));
                continue;
            }
        };
        if run.before != exp.input {
            push(&mut ev, json!({"kind": "store_before_inference_differs_from_inserted_facts", "strategy": sname}), json!({"variant": variant, "inserted": exp.input.len(), "stored": run.before.len()}));
        }
        if !run.before.is_subset(&run.store) {
            push(&mut ev, json!({"kind": "input_fact_lost", "strategy": sname}), json!({"variant": variant, "lost": sample(run.before.difference(&run.store))}));
        }
        let ret_set: BTreeSet<Lex> = run.returned.iter().cloned().collect();
        if ret_set.len() != run.returned.len() {
            push(&mut ev, json!({"kind": "returned_list_has_duplicates", "strategy": sname}), json!({"variant": variant, "returned": run.returned.len(), "distinct": ret_set.len()}));
        }
        let delta: BTreeSet<Lex> = run.store.difference(&run.before).cloned().collect();
        if ret_set != delta {
            push(
                &mut ev,
                json!({"kind": "returned_list_differs_from_store_delta", "strategy": sname}),
                json!({"variant": variant, "returned_not_stored": sample(ret_set.difference(&delta)), "stored_not_returned": sample(delta.difference(&ret_set))}),
            );
        }
        // the store against the oracle model
        let first_run_status: String;
        if run.store == exp.model {
            ev.exact += 1;
            first_run_status = "exact".to_string();
        } else {
            let missing = sample(exp.model.difference(&run.store));
            let extra = sample(run.store.difference(&exp.model));
            let cached = attributed.iter().find(|(s, _)| *s == run.store).map(|(_, c)| c.clone());
            let status = match cached {
                Some(c) => c,
                None => {
                    let status = match attribute(cs, exp, &run.store, cap, &[]) {
                        Attribution::Causes(d, alternatives) => {
                            for cause in &d {
                                push(
                                    &mut ev,
                                    json!({"kind": kind_of(cause), "strategy": sname, "cause": cause}),
                                    json!({"variant": variant, "established_causes": d, "equally_small_alternative_explanations": alternatives, "expected": exp.model.len(), "got": run.store.len(), "missing": missing, "not_entailed": extra}),
                                );
                            }
                            d.join("+")
                        }
                        Attribution::Unexplained => {
                            let dir = if !missing.is_empty() && !extra.is_empty() { "both" } else if !missing.is_empty() { "missing" } else { "not_entailed" };
                            push(
                                &mut ev,
                                json!({"kind": "model_differs", "strategy": sname, "direction": dir, "cause": "unexplained"}),
                                json!({"variant": variant, "expected": exp.model.len(), "got": run.store.len(), "missing": missing, "not_entailed": extra, "deviation_classes_in_program": classes_present(cs)}),
                            );
                            "unexplained".to_string()
                        }
                        Attribution::WorkCap => {
                            push(
                                &mut ev,
                                json!({"kind": "model_differs", "strategy": sname, "cause": "attribution_exceeded_work_cap"}),
                                json!({"variant": variant, "expected": exp.model.len(), "got": run.store.len(), "missing": missing, "not_entailed": extra}),
                            );
                            "unattributed".to_string()
                        }
                    };
                    attributed.push((run.store.clone(), status.clone()));
                    status
                }
            };
            ev.deviating.push(status.clone());
            first_run_status = format!("deviating:{}", status);
        }
        // second run
        if !run.returned2.is_empty() || run.store2 != run.store {
            // A second run can only add facts when the first one stopped short of the fixpoint of
            // the engine's own (possibly deviating) evaluation.  E2 = what explains the store after
            // the second run; the classes that must be added to E2 to explain the first store are
            // what made the first run incomplete.
            let e2: Option<Vec<&'static str>> = if run.store2 == exp.model {
                Some(vec![])
            } else {
                match attribute(cs, exp, &run.store2, cap, &[]) {
                    Attribution::Causes(d2, _) => Some(d2),
                    _ => None,
                }
            };
            let cause2 = match e2 {
                None => "unexplained".to_string(),
                Some(e2) => match attribute(cs, exp, &run.store, cap, &e2) {
                    Attribution::Causes(e1, _) => {
                        let added: Vec<&str> = e1.iter().filter(|c| !e2.contains(c)).copied().collect();
                        if !added.is_empty() {
                            format!("first_run_incomplete:{}", added.join("+"))
                        } else if e2.contains(&CL_VARPRED) {
                            format!("first_run_incomplete:{}", CL_VARPRED)
                        } else {
                            "unexplained".to_string()
                        }
                    }
                    _ => "unexplained".to_string(),
                },
            };
            push(
                &mut ev,
                json!({"kind": "second_run_derives_facts", "strategy": sname, "cause": cause2}),
                json!({"variant": variant, "first_run": first_run_status, "returned_by_second_run": sample(run.returned2.iter()), "store_growth": run.store2.len() as i64 - run.store.len() as i64}),
            );
        } else {
            ev.second_runs_silent += 1;
        }
        stores.push((variant, run.store));
    }
    if let Some((v0, s0)) = stores.first() {
        for (vi, si) in stores.iter().skip(1) {
            if si != s0 {
                push(
                    &mut ev,
                    json!({"kind": "model_depends_on_order", "strategy": sname}),
                    json!({"variants": [v0, vi], "only_in_first": sample(s0.difference(si)), "only_in_second": sample(si.difference(s0))}),
                );
                break;
            }
        }
    }
    ev
}

// ---------------------------------------------------------------------------------------
// witness minimisation (greedy; only changes `detail`, never a verdict)

fn shrink_candidates(cs: &Case) -> Vec<Case> {
    let mut out = vec![];
    if cs.rules.len() > 1 {
        for i in 0..cs.rules.len() {
            let mut c2 = cs.clone();
            c2.rules.remove(i);
            out.push(c2);
        }
    }
    let n = cs.facts.len();
    let mut chunk = n / 2;
    while chunk >= 2 {
        let mut start = 0;
        while start < n {
            let mut c2 = cs.clone();
            c2.facts.drain(start..(start + chunk).min(n));
            out.push(c2);
            start += chunk;
        }
        chunk /= 2;
    }
    for (ri, r) in cs.rules.iter().enumerate() {
        for i in 0..r.neg.len() {
            let mut c2 = cs.clone();
            c2.rules[ri].neg.remove(i);
            out.push(c2);
        }
        for i in 0..r.filters.len() {
            let mut c2 = cs.clone();
            c2.rules[ri].filters.remove(i);
            out.push(c2);
        }
        if r.concl.len() > 1 {
            for i in 0..r.concl.len() {
                let mut c2 = cs.clone();
                c2.rules[ri].concl.remove(i);
                out.push(c2);
            }
        }
        if r.prem.len() > 1 {
            for i in 0..r.prem.len() {
                let mut c2 = cs.clone();
                c2.rules[ri].prem.remove(i);
                out.push(c2);
            }
        }
    }
    for i in 0..n {
        let mut c2 = cs.clone();
        c2.facts.remove(i);
        out.push(c2);
    }
    // simplifications: a variable predicate -> a constant predicate; one occurrence of a
    // variable -> a fresh variable (un-repeat); a constant subject/object -> a fresh variable
    let fact_preds: BTreeSet<String> = cs.facts.iter().map(|f| f.1.clone()).collect();
    for (ri, r) in cs.rules.iter().enumerate() {
        for (pi, p) in r.prem.iter().enumerate() {
            if let PT::V(_) = p.1 {
                for fp in fact_preds.iter().take(3) {
                    let mut c2 = cs.clone();
                    c2.rules[ri].prem[pi].1 = PT::C(fp.clone());
                    out.push(c2);
                }
            }
            for pos in [0usize, 2] {
                let fresh = PT::V(format!("F{}{}", pi, pos));
                let t = if pos == 0 { &p.0 } else { &p.2 };
                if *t != fresh {
                    let mut c2 = cs.clone();
                    if pos == 0 {
                        c2.rules[ri].prem[pi].0 = fresh;
                    } else {
                        c2.rules[ri].prem[pi].2 = fresh;
                    }
                    out.push(c2);
                }
            }
        }
        for (ci, p) in r.concl.iter().enumerate() {
            if let PT::V(_) = p.1 {
                let mut c2 = cs.clone();
                c2.rules[ri].concl[ci].1 = c("h0");
                out.push(c2);
            }
            for pos in [0usize, 2] {
                let t = if pos == 0 { &p.0 } else { &p.2 };
                if let PT::V(_) = t {
                    if let Some(e) = cs.facts.first() {
                        let mut c2 = cs.clone();
                        if pos == 0 {
                            c2.rules[ri].concl[ci].0 = PT::C(e.0.clone());
                        } else {
                            c2.rules[ri].concl[ci].2 = PT::C(e.0.clone());
                        }
                        out.push(c2);
                    }
                }
            }
        }
    }
    out
}

fn in_fragment(cs: &Case) -> bool {
    if !cs.rules.iter().all(rule_is_safe) {
        return false;
    }
    if cs.rules.iter().any(|r| !r.neg.is_empty()) {
        let tb = Table::of(cs);
        if mdatalog::negative_heads_feed_rules(&tb.rules(&cs.rules)) {
            return false;
        }
    }
    true
}

fn shrink(cs: &Case, st: Strat, target: &Value, order_base: u64, cap: u64) -> (Case, Option<Value>) {
    let mut cur = cs.clone();
    let mut detail = None;
    // number of candidate evaluations, scaled down for large cases
    let mut budget = (20_000 / cs.facts.len().max(1)).clamp(40, 400);
    'outer: loop {
        for cand in shrink_candidates(&cur) {
            if budget == 0 {
                break 'outer;
            }
            if !in_fragment(&cand) {
                continue;
            }
            budget -= 1;
            let exp = match expect_of(&cand, cap) {
                Scope::Ok(e) => e,
                _ => continue,
            };
            let ev = evaluate(&cand, &exp, st, order_base, cap);
            if let Some(i) = ev.issues.into_iter().find(|i| i.sig == *target) {
                cur = cand;
                detail = Some(i.detail);
                continue 'outer;
            }
        }
        break;
    }
    (cur, detail)
}

// ---------------------------------------------------------------------------------------
// generators

struct Uni {
    ents: Vec<String>,
    preds: Vec<String>,
    vpreds: Vec<String>,
    nums: Vec<String>,
}

const NUM_POOL: [&str; 12] = ["0", "1", "2", "3", "4", "5", "7", "9", "10", "15", "-2", "42"];
const VARS: [&str; 5] = ["X", "Y", "Z", "W", "V"];

fn gen_uni(r: &mut Rng, n_ent: usize, n_pred: usize, n_vpred: usize) -> Uni {
    let mut nums: Vec<String> = NUM_POOL.iter().map(|s| s.to_string()).collect();
    r.shuffle(&mut nums);
    nums.truncate(r.range(2, 5));
    Uni {
        ents: (0..n_ent).map(|i| format!("a{}", i)).collect(),
        preds: (0..n_pred).map(|i| format!("p{}", i)).collect(),
        vpreds: (0..n_vpred).map(|i| format!("v{}", i)).collect(),
        nums,
    }
}

#[derive(Clone)]
struct Cfg {
    /// weights for 1,2,3,4 premises
    w_prem: [usize; 4],
    /// weights for 1,2,3 conclusions
    w_concl: [usize; 3],
    p_const: usize,
    p_varpred: usize,
    p_filter: usize,
    p_value_premise: usize,
    p_fresh_head: usize,
    negative: bool,
}

fn gen_so_term(r: &mut Rng, u: &Uni, cfg: &Cfg, used: &[String], object: bool) -> PT {
    if !r.chance(cfg.p_const, 100) {
        if !used.is_empty() && r.chance(60, 100) {
            PT::V(r.pick(used).clone())
        } else {
            v(VARS[r.below(4)])
        }
    } else {
        let x = r.below(100);
        if x < (if object { 12 } else { 3 }) {
            PT::C(r.pick(&u.nums).clone())
        } else if x < 18 {
            PT::C(r.pick(&u.preds).clone())
        } else {
            PT::C(r.pick(&u.ents).clone())
        }
    }
}

fn push_vars(used: &mut Vec<String>, p: &Pat) {
    for x in pat_vars(p) {
        if !used.iter().any(|u| u == x) {
            used.push(x.to_string());
        }
    }
}

fn gen_rule(r: &mut Rng, u: &Uni, cfg: &Cfg) -> LRule {
    let np = 1 + r.weighted(&cfg.w_prem);
    let mut prem: Vec<Pat> = vec![];
    let mut used: Vec<String> = vec![];
    let mut numvars: Vec<String> = vec![];
    for i in 0..np {
        let value_premise = !u.vpreds.is_empty() && r.chance(cfg.p_value_premise, 100);
        let mut p: Pat = if value_premise {
            let nv = ["N", "M"][r.below(2)].to_string();
            if !numvars.contains(&nv) {
                numvars.push(nv.clone());
            }
            (gen_so_term(r, u, cfg, &used, false), PT::C(r.pick(&u.vpreds).clone()), PT::V(nv))
        } else {
            let pred = if r.chance(cfg.p_varpred, 100) {
                if r.chance(80, 100) || used.is_empty() {
                    v(["P", "Q"][r.below(2)])
                } else {
                    PT::V(r.pick(&used).clone())
                }
            } else {
                PT::C(r.pick(&u.preds).clone())
            };
            let s = gen_so_term(r, u, cfg, &used, false);
            let o = if r.chance(8, 100) { s.clone() } else { gen_so_term(r, u, cfg, &used, true) };
            (s, pred, o)
        };
        // keep most rules connected
        if i > 0 && !used.is_empty() && !pat_vars(&p).iter().any(|x| used.iter().any(|u| u == x)) && r.chance(80, 100) {
            let uv = PT::V(r.pick(&used).clone());
            if r.coin() || value_premise {
                p.0 = uv;
            } else {
                p.2 = uv;
            }
        }
        push_vars(&mut used, &p);
        prem.push(p);
    }
    // filters
    let mut filters = vec![];
    if r.chance(cfg.p_filter, 100) {
        let nf = r.range(1, 2);
        for _ in 0..nf {
            let entvars: Vec<String> = used.iter().filter(|x| !numvars.contains(x)).cloned().collect();
            let choice = r.below(10);
            if !numvars.is_empty() && choice < 6 {
                let op = *r.pick(&[">", "<", ">=", "<=", "=", "!="]);
                let val = if r.chance(80, 100) { r.pick(&u.nums).clone() } else { r.pick(&["3", "6", "8", "-1"]).to_string() };
                filters.push(LFilter { var: r.pick(&numvars).clone(), op: op.to_string(), val, val_is_var: false });
            } else if numvars.len() >= 2 && choice < 8 {
                filters.push(LFilter { var: numvars[0].clone(), op: r.pick(&["=", "!="]).to_string(), val: numvars[1].clone(), val_is_var: true });
            } else if entvars.len() >= 2 {
                let a = r.below(entvars.len());
                let mut b = r.below(entvars.len());
                if a == b {
                    b = (b + 1) % entvars.len();
                }
                filters.push(LFilter { var: entvars[a].clone(), op: r.pick(&["=", "!=", "!="]).to_string(), val: entvars[b].clone(), val_is_var: true });
            }
        }
    }
    // negative premises
    let mut neg = vec![];
    if cfg.negative {
        for _ in 0..r.range(1, 2) {
            let t = |r: &mut Rng| -> PT {
                if !used.is_empty() && r.chance(80, 100) {
                    PT::V(r.pick(&used).clone())
                } else {
                    PT::C(r.pick(&u.ents).clone())
                }
            };
            neg.push((t(r), PT::C(r.pick(&u.preds).clone()), t(r)));
        }
    }
    // conclusions
    let nc = 1 + r.weighted(&cfg.w_concl);
    let predvars: Vec<String> = prem.iter().filter_map(|p| if let PT::V(x) = &p.1 { Some(x.clone()) } else { None }).collect();
    let mut concl = vec![];
    for _ in 0..nc {
        let head_t = |r: &mut Rng, numeric: bool| -> PT {
            if numeric {
                if !numvars.is_empty() && r.chance(70, 100) {
                    PT::V(r.pick(&numvars).clone())
                } else {
                    PT::C(r.pick(&u.nums).clone())
                }
            } else if !used.is_empty() && r.chance(78, 100) {
                PT::V(r.pick(&used).clone())
            } else {
                PT::C(r.pick(&u.ents).clone())
            }
        };
        let mut numeric_obj = false;
        let pred = if cfg.negative {
            c(["n0", "n1"][r.below(2)])
        } else if !predvars.is_empty() && r.chance(35, 100) {
            PT::V(r.pick(&predvars).clone())
        } else if !used.is_empty() && r.chance(2, 100) {
            PT::V(r.pick(&used).clone())
        } else if r.chance(cfg.p_fresh_head, 100) {
            c(["h0", "h1"][r.below(2)])
        } else if !u.vpreds.is_empty() && r.chance(12, 100) {
            numeric_obj = true;
            PT::C(r.pick(&u.vpreds).clone())
        } else {
            PT::C(r.pick(&u.preds).clone())
        };
        let s = head_t(r, false);
        let o = head_t(r, numeric_obj);
        concl.push((s, pred, o));
    }
    LRule { prem, neg, filters, concl }
}

fn gen_facts(r: &mut Rng, u: &Uni, n: usize) -> Vec<Lex> {
    let mut set: BTreeSet<Lex> = BTreeSet::new();
    for _ in 0..n {
        let x = r.below(100);
        let f = if x < 72 || (u.vpreds.is_empty() && x < 90) {
            (r.pick(&u.ents).clone(), r.pick(&u.preds).clone(), r.pick(&u.ents).clone())
        } else if x < 90 {
            (r.pick(&u.ents).clone(), r.pick(&u.vpreds).clone(), r.pick(&u.nums).clone())
        } else {
            match r.below(5) {
                0 => (r.pick(&u.nums).clone(), r.pick(&u.preds).clone(), r.pick(&u.ents).clone()),
                1 => (r.pick(&u.ents).clone(), r.pick(&u.preds).clone(), r.pick(&u.preds).clone()),
                2 => (r.pick(&u.preds).clone(), r.pick(&u.preds).clone(), r.pick(&u.ents).clone()),
                3 => (r.pick(&u.ents).clone(), ["n0", "h0"][r.below(2)].to_string(), r.pick(&u.ents).clone()),
                _ => (r.pick(&u.ents).clone(), r.pick(&u.preds).clone(), r.pick(&u.nums).clone()),
            }
        };
        set.insert(f);
    }
    let mut out: Vec<Lex> = set.into_iter().collect();
    r.shuffle(&mut out);
    out
}

/// keep the case inside the documented fragment: safe rules; negative heads feed nothing
fn normalise(mut cs: Case) -> Case {
    cs.rules.retain(rule_is_safe);
    if cs.rules.iter().any(|r| !r.neg.is_empty()) {
        let tb = Table::of(&cs);
        if mdatalog::negative_heads_feed_rules(&tb.rules(&cs.rules)) {
            for r in cs.rules.iter_mut() {
                r.neg.clear();
            }
        }
    }
    cs
}

fn gen_join_shapes(r: &mut Rng) -> Case {
    let (ne, npd) = (r.range(3, 4), r.range(2, 3));
    let u = gen_uni(r, ne, npd, 0);
    let cfg = Cfg {
        w_prem: [2, 5, 3, 2],
        w_concl: [6, 3, 1],
        p_const: r.range(5, 30),
        p_varpred: *r.pick(&[0, 0, 15, 30, 50]),
        p_filter: 10,
        p_value_premise: 0,
        p_fresh_head: *r.pick(&[80, 80, 30]),
        negative: false,
    };
    let nr = if r.chance(75, 100) { 1 } else { 2 };
    let rules: Vec<LRule> = (0..nr).map(|_| gen_rule(r, &u, &cfg)).collect();
    // dense fact set over the universe (+ a few triples that reuse predicate names as nodes)
    let density = r.range(25, 70);
    let mut facts = vec![];
    for s in &u.ents {
        for p in &u.preds {
            for o in &u.ents {
                if r.chance(density, 100) {
                    facts.push((s.clone(), p.clone(), o.clone()));
                }
            }
        }
    }
    for _ in 0..r.range(0, 4) {
        facts.extend(gen_facts(r, &u, 1).into_iter().take(1));
        if r.chance(40, 100) {
            facts.push((r.pick(&u.ents).clone(), r.pick(&u.preds).clone(), r.pick(&u.preds).clone()));
        }
    }
    let set: BTreeSet<Lex> = facts.into_iter().collect();
    let mut facts: Vec<Lex> = set.into_iter().collect();
    r.shuffle(&mut facts);
    normalise(Case { facts, rules })
}

fn graph_edges(r: &mut Rng, n: usize, max_edges: usize) -> Vec<(usize, usize)> {
    let mut e: BTreeSet<(usize, usize)> = BTreeSet::new();
    match r.below(6) {
        0 => {
            for i in 0..n.saturating_sub(1) {
                e.insert((i, i + 1));
            }
        }
        1 => {
            for i in 0..n {
                e.insert((i, (i + 1) % n));
            }
        }
        2 => {
            for i in 1..n {
                e.insert((r.below(i), i));
            }
        }
        3 => {
            // two components
            let h = (n / 2).max(1);
            for i in 0..h.saturating_sub(1) {
                e.insert((i, i + 1));
            }
            for i in h..n.saturating_sub(1) {
                e.insert((i, i + 1));
            }
            if r.coin() && n > h {
                e.insert((n - 1, h));
            }
        }
        4 => {
            for _ in 0..r.range(1, n + 2) {
                e.insert((r.below(n), r.below(n)));
            }
        }
        _ => {
            for _ in 0..r.range(n, 3 * n) {
                e.insert((r.below(n), r.below(n)));
            }
        }
    }
    // a few extra edges / self loops
    for _ in 0..r.range(0, 2) {
        e.insert((r.below(n), r.below(n)));
    }
    let mut v: Vec<(usize, usize)> = e.into_iter().collect();
    r.shuffle(&mut v);
    v.truncate(max_edges);
    v
}

fn rule(prem: Vec<Pat>, concl: Vec<Pat>) -> LRule {
    LRule { prem, neg: vec![], filters: vec![], concl }
}

fn gen_recursion(r: &mut Rng, big: bool) -> (Case, usize) {
    let n = r.range(4, if big { 12 } else { 8 });
    let u = gen_uni(r, n, 4, 1);
    let mut ps: Vec<String> = u.preds.clone();
    r.shuffle(&mut ps);
    // e = edge predicate, t/s2 = derived predicates; with some probability they coincide
    let e = ps[0].clone();
    let t = if r.chance(15, 100) { e.clone() } else { ps[1].clone() };
    let s2 = if r.chance(10, 100) { t.clone() } else { ps[2].clone() };
    let e2 = ps[3].clone();
    let pc = |s: &str| PT::C(s.to_string());
    let mut rules: Vec<LRule> = vec![];
    let mut facts: Vec<Lex> = vec![];
    let edges = graph_edges(r, n, 36);
    for (a, b) in &edges {
        facts.push((u.ents[*a].clone(), e.clone(), u.ents[*b].clone()));
    }
    let template = r.below(12);
    match template {
        0 => {
            rules.push(rule(vec![(v("X"), pc(&e), v("Y"))], vec![(v("X"), pc(&t), v("Y"))]));
            rules.push(rule(vec![(v("X"), pc(&e), v("Y")), (v("Y"), pc(&t), v("Z"))], vec![(v("X"), pc(&t), v("Z"))]));
        }
        1 => {
            rules.push(rule(vec![(v("X"), pc(&e), v("Y"))], vec![(v("X"), pc(&t), v("Y"))]));
            rules.push(rule(vec![(v("X"), pc(&t), v("Y")), (v("Y"), pc(&e), v("Z"))], vec![(v("X"), pc(&t), v("Z"))]));
        }
        2 => {
            rules.push(rule(vec![(v("X"), pc(&e), v("Y"))], vec![(v("X"), pc(&t), v("Y"))]));
            rules.push(rule(vec![(v("X"), pc(&t), v("Y")), (v("Y"), pc(&t), v("Z"))], vec![(v("X"), pc(&t), v("Z"))]));
        }
        3 => {
            rules.push(rule(vec![(v("X"), pc(&e), v("Y"))], vec![(v("Y"), pc(&e), v("X"))]));
            rules.push(rule(vec![(v("X"), pc(&e), v("Y")), (v("Y"), pc(&e), v("Z"))], vec![(v("X"), pc(&e), v("Z"))]));
        }
        4 => {
            // odd / even path lengths
            rules.push(rule(vec![(v("X"), pc(&e), v("Y"))], vec![(v("X"), pc(&t), v("Y"))]));
            rules.push(rule(vec![(v("X"), pc(&t), v("Y")), (v("Y"), pc(&e), v("Z"))], vec![(v("X"), pc(&s2), v("Z"))]));
            rules.push(rule(vec![(v("X"), pc(&s2), v("Y")), (v("Y"), pc(&e), v("Z"))], vec![(v("X"), pc(&t), v("Z"))]));
        }
        5 => {
            // same generation (3 premises)
            rules.push(rule(vec![(v("P"), pc(&e), v("X")), (v("P"), pc(&e), v("Y"))], vec![(v("X"), pc(&t), v("Y"))]));
            rules.push(rule(vec![(v("A"), pc(&e), v("X")), (v("A"), pc(&t), v("B")), (v("B"), pc(&e), v("Y"))], vec![(v("X"), pc(&t), v("Y"))]));
        }
        6 => {
            // sub-property reasoning through a variable predicate
            let chain = [e.clone(), t.clone(), s2.clone(), e2.clone()];
            for w in chain.windows(2) {
                if r.chance(85, 100) {
                    facts.push((w[0].clone(), "sub".to_string(), w[1].clone()));
                }
            }
            rules.push(rule(vec![(v("P"), c("sub"), v("Q")), (v("X"), v("P"), v("Y"))], vec![(v("X"), v("Q"), v("Y"))]));
            if r.coin() {
                rules.push(rule(vec![(v("P"), c("sub"), v("Q")), (v("Q"), c("sub"), v("R"))], vec![(v("P"), c("sub"), v("R"))]));
            }
        }
        7 => {
            // reachability from a constant
            let a = PT::C(r.pick(&u.ents).clone());
            rules.push(rule(vec![(a.clone(), pc(&e), v("X"))], vec![(a.clone(), pc(&t), v("X"))]));
            rules.push(rule(vec![(a.clone(), pc(&t), v("X")), (v("X"), pc(&e), v("Y"))], vec![(a.clone(), pc(&t), v("Y"))]));
        }
        8 => {
            // 3-premise chain feeding back
            rules.push(rule(vec![(v("X"), pc(&e), v("Y")), (v("Y"), pc(&e), v("Z")), (v("Z"), pc(&e), v("W"))], vec![(v("X"), pc(&t), v("W"))]));
            rules.push(rule(vec![(v("X"), pc(&t), v("Y"))], vec![(v("Y"), pc(&e), v("X"))]));
        }
        9 => {
            // 4-premise path, several conclusions
            rules.push(rule(
                vec![(v("X"), pc(&e), v("Y")), (v("Y"), pc(&e), v("Z")), (v("Z"), pc(&e), v("W")), (v("W"), pc(&e), v("V"))],
                vec![(v("X"), pc(&t), v("V")), (v("V"), pc(&s2), v("X"))],
            ));
            rules.push(rule(vec![(v("X"), pc(&t), v("Y")), (v("Y"), pc(&s2), v("Z"))], vec![(v("X"), pc(&e), v("Z"))]));
        }
        10 => {
            // loops: repeated variable in a premise
            rules.push(rule(vec![(v("X"), pc(&e), v("Y")), (v("Y"), pc(&e), v("X"))], vec![(v("X"), pc(&t), v("X"))]));
            rules.push(rule(vec![(v("X"), pc(&t), v("X")), (v("X"), pc(&e), v("Y"))], vec![(v("Y"), pc(&t), v("Y")), (v("X"), pc(&s2), v("Y"))]));
        }
        _ => {
            // two derived relations feeding each other, one anchored on a constant object
            let a = PT::C(r.pick(&u.ents).clone());
            rules.push(rule(vec![(v("X"), pc(&e), a.clone())], vec![(v("X"), pc(&t), a.clone())]));
            rules.push(rule(vec![(v("X"), pc(&e), v("Y")), (v("Y"), pc(&t), a.clone())], vec![(v("X"), pc(&t), a.clone()), (v("X"), pc(&s2), v("Y"))]));
            rules.push(rule(vec![(v("X"), pc(&s2), v("Y")), (v("Y"), pc(&s2), v("Z"))], vec![(v("X"), pc(&s2), v("Z"))]));
        }
    }
    // premise order inside the templates is not special
    for rl in rules.iter_mut() {
        if r.chance(50, 100) {
            r.shuffle(&mut rl.prem);
        }
    }
    if r.chance(30, 100) {
        let cfg = Cfg { w_prem: [3, 5, 2, 1], w_concl: [6, 2, 1], p_const: 15, p_varpred: *r.pick(&[0, 0, 20]), p_filter: 0, p_value_premise: 0, p_fresh_head: 10, negative: false };
        rules.push(gen_rule(r, &u, &cfg));
    }
    if r.chance(30, 100) {
        let extra = r.range(1, 6);
        facts.extend(gen_facts(r, &u, extra));
    }
    let set: BTreeSet<Lex> = facts.into_iter().collect();
    let mut facts: Vec<Lex> = set.into_iter().collect();
    r.shuffle(&mut facts);
    facts.truncate(44);
    r.shuffle(&mut rules);
    (normalise(Case { facts, rules }), template)
}

/// > 1000 triples of one predicate, so that the hash join splits its probe side into several
/// rayon chunks and the parallel strategy folds over a large delta; rules are kept selective
/// (one premise, or anchored on a constant) so that the naive oracle stays cheap.
fn gen_bulk(r: &mut Rng) -> Case {
    let k = r.range(150, 400);
    let n_edges = r.range(1_050, 1_500);
    let node = |i: usize| format!("n{}", i);
    let mut set: BTreeSet<Lex> = BTreeSet::new();
    while set.len() < n_edges {
        let a = r.below(k);
        let b = if r.chance(3, 100) { a } else { r.below(k) };
        set.insert((node(a), "p0".to_string(), node(b)));
    }
    for _ in 0..r.range(0, 60) {
        set.insert((node(r.below(k)), ["p1", "p2"][r.below(2)].to_string(), node(r.below(k))));
    }
    let anchor = PT::C(node(r.below(k)));
    let mut rules = vec![];
    let n_rules = r.range(1, 2);
    for _ in 0..n_rules {
        let rl = match r.below(7) {
            0 => rule(vec![(v("X"), c("p0"), v("Y"))], vec![(v("Y"), c("q0"), v("X"))]),
            1 => rule(vec![(anchor.clone(), c("p0"), v("Y")), (v("Y"), c("p0"), v("Z"))], vec![(anchor.clone(), c("q1"), v("Z"))]),
            2 => rule(vec![(v("X"), c("p0"), v("X"))], vec![(v("X"), c("loop"), v("X"))]),
            3 => rule(vec![(anchor.clone(), v("P"), v("Y")), (v("Y"), v("P"), v("Z"))], vec![(v("Z"), c("seen"), v("P"))]),
            4 => rule(vec![(v("Y"), c("p0"), anchor.clone()), (v("X"), c("p0"), v("Y"))], vec![(v("X"), c("q2"), anchor.clone()), (v("Y"), c("q0"), v("X"))]),
            5 => rule(vec![(v("X"), c("p1"), v("Y")), (v("Y"), c("p0"), v("Z")), (v("Z"), c("p0"), v("W"))], vec![(v("X"), c("q3"), v("W"))]),
            _ => rule(vec![(v("X"), c("p0"), v("Y")), (v("Y"), c("p0"), v("X"))], vec![(v("X"), c("sym"), v("Y"))]),
        };
        rules.push(rl);
    }
    let mut facts: Vec<Lex> = set.into_iter().collect();
    r.shuffle(&mut facts);
    normalise(Case { facts, rules })
}

fn gen_mixed(r: &mut Rng) -> Case {
    let (ne, npd, nv) = (r.range(3, 6), r.range(1, 3), r.range(0, 2));
    let u = gen_uni(r, ne, npd, nv);
    let negative_program = r.chance(25, 100);
    let filters_program = !u.vpreds.is_empty() && r.chance(60, 100);
    let base = Cfg {
        w_prem: [4, 6, 3, 2],
        w_concl: [6, 3, 1],
        p_const: r.range(3, 22),
        p_varpred: if negative_program { 0 } else { *r.pick(&[0, 0, 0, 10, 25]) },
        p_filter: if filters_program { 70 } else { 15 },
        p_value_premise: if filters_program { 35 } else if u.vpreds.is_empty() { 0 } else { 10 },
        p_fresh_head: *r.pick(&[0, 10, 40]),
        negative: false,
    };
    let nr = r.range(1, 4);
    let mut rules = vec![];
    let mut n_neg = 0;
    for _ in 0..nr {
        let mut cfg = base.clone();
        if negative_program && (r.chance(45, 100) || (n_neg == 0 && rules.len() + 1 == nr)) {
            cfg.negative = true;
            n_neg += 1;
        }
        rules.push(gen_rule(r, &u, &cfg));
    }
    let nf = match r.below(10) {
        0 => r.range(0, 3),
        1..=4 => r.range(8, 24),
        _ => r.range(20, 40),
    };
    let facts = gen_facts(r, &u, nf);
    normalise(Case { facts, rules })
}

// ---------------------------------------------------------------------------------------
// driver

fn features(ctx: &mut Ctx, cs: &Case) {
    for r in &cs.rules {
        ctx.count(&format!("rules.premises.{}", r.prem.len()), 1);
        ctx.count(&format!("rules.conclusions.{}", r.concl.len()), 1);
        if has_varpred(r) {
            ctx.count(if all_varpred(r) { "rules.variable_predicate_in_every_premise" } else { "rules.variable_predicate_in_some_premises" }, 1);
        }
        if r.concl.iter().any(|p| matches!(p.1, PT::V(_))) {
            ctx.count("rules.variable_predicate_in_conclusion", 1);
        }
        if !r.filters.is_empty() {
            ctx.count("rules.with_filters", 1);
        }
        for f in &r.filters {
            ctx.count(&format!("filters.{}.{}", if f.val_is_var { "var_var" } else { "var_const" }, f.op), 1);
        }
        if !r.neg.is_empty() {
            ctx.count("rules.with_negative_premise", 1);
        }
        for p in &r.prem {
            if matches!(p.0, PT::C(_)) {
                ctx.count("premises.constant_subject", 1);
            }
            if matches!(p.2, PT::C(_)) {
                ctx.count("premises.constant_object", 1);
            }
            if matches!((&p.0, &p.2), (PT::V(a), PT::V(b)) if a == b) {
                ctx.count("premises.same_variable_subject_and_object", 1);
            }
            if let PT::V(pv) = &p.1 {
                if [&p.0, &p.2].iter().any(|t| matches!(t, PT::V(x) if x == pv)) {
                    ctx.count("premises.predicate_variable_repeated_in_subject_or_object", 1);
                }
            }
        }
        // the same variable in a predicate position of one premise and a subject/object position of another
        let pv: BTreeSet<&str> = r.prem.iter().filter_map(|p| if let PT::V(x) = &p.1 { Some(x.as_str()) } else { None }).collect();
        if r.prem.iter().any(|p| [&p.0, &p.2].iter().any(|t| matches!(t, PT::V(x) if pv.contains(x.as_str())))) {
            ctx.count("rules.variable_shared_between_predicate_and_node_positions", 1);
        }
    }
}

fn run_case(ctx: &mut Ctx, phase: &str, k: u64, cs: &Case, cap: u64, shrunk: &mut HashSet<String>) {
    if cs.rules.is_empty() {
        ctx.count("cases_skipped.no_safe_rule", 1);
        return;
    }
    let exp = match expect_of(cs, cap) {
        Scope::Ok(e) => e,
        Scope::OverCap => {
            ctx.count("cases_skipped.oracle_work_cap", 1);
            return;
        }
        Scope::OutsideDomain => {
            ctx.count("cases_skipped.filter_outside_numeric_domain", 1);
            return;
        }
        Scope::OracleDisagree(e) => {
            ctx.inconclusive(&format!("{} case={}", e, case_json(cs)));
            return;
        }
    };
    features(ctx, cs);
    let cj = case_json(cs);
    let derived = exp.model.len() - exp.input.len();
    ctx.count("oracle.derived_facts", derived as u64);
    ctx.count("oracle.match_steps", exp.work);
    ctx.max("max_model_size", exp.model.len() as u64);
    ctx.max("max_derived_facts", derived as u64);
    ctx.max("max_derivation_height", exp.max_height as u64);
    ctx.count(&format!("cases.derivation_height.{}", exp.max_height.min(6)), 1);
    if derived == 0 {
        ctx.count(&format!("cases.nothing_derivable.{}", phase), 1);
    }
    if exp.nontrivial {
        ctx.nontrivial(hash_str(&cj.to_string()));
        ctx.count(&format!("cases.nontrivial.{}", phase), 1);
    }
    // did filters / negation actually decide something in this case? (oracle only)
    for (cl, key) in [(CL_FILTERS, "cases.where_a_filter_blocks_a_derivation"), (CL_NEG, "cases.where_negation_blocks_a_derivation")] {
        if classes_present(cs).contains(&cl) {
            if let Scope::Ok(m) = model_of(&exp.tb, cs, &deviated_rules(cs, &[cl], false), cap.saturating_mul(20)) {
                if m.facts.len() != exp.model.len() {
                    ctx.count(key, 1);
                }
            }
        }
    }
    if ctx.wants_sample() && exp.nontrivial {
        ctx.sample(json!({"case": cj, "model_size": exp.model.len(), "derived": derived, "max_derivation_height": exp.max_height}));
    }
    let order_base = ctx.rng_labeled("order", k).next_u64();
    for st in STRATS {
        let ev = evaluate(cs, &exp, st, order_base ^ hash_str(st.name()), cap);
        ctx.add_evals(ev.runs * 2);
        ctx.count(&format!("runs.{}", st.name()), ev.runs);
        ctx.count(&format!("runs_equal_to_oracle_model.{}", st.name()), ev.exact);
        ctx.count(&format!("second_runs_that_derive_nothing.{}", st.name()), ev.second_runs_silent);
        for d in &ev.deviating {
            ctx.count(&format!("runs_deviating.{}.{}", st.name(), d), 1);
        }
        for is in ev.issues {
            let key = is.sig.to_string();
            let mut detail = json!({"case": cj, "strategy": st.name(), "observation": is.detail});
            if shrunk.insert(key) {
                let (small, d2) = shrink(cs, st, &is.sig, order_base ^ hash_str(st.name()), cap);
                if let Some(d2) = d2 {
                    detail["minimised_case"] = case_json(&small);
                    detail["minimised_observation"] = d2;
                }
            }
            ctx.violation(is.sig, detail);
        }
    }
}

fn run(ctx: &mut Ctx) {
    let cap: u64 = ctx.by_tier(400_000, 1_500_000);
    let big = ctx.thorough();
    // signatures already minimised in this process (only affects how small the printed
    // witness is, never what is reported)
    let mut shrunk: HashSet<String> = HashSet::new();

    ctx.phase("join_shapes", ctx.by_tier(2_400, 240_000));
    while ctx.within(0.28) {
        let Some(k) = ctx.next_case() else { break };
        let mut r = ctx.rng(k);
        let cs = gen_join_shapes(&mut r);
        run_case(ctx, "join_shapes", k, &cs, cap, &mut shrunk);
    }
    ctx.phase("recursion", ctx.by_tier(1_600, 120_000));
    while ctx.within(0.62) {
        let Some(k) = ctx.next_case() else { break };
        let mut r = ctx.rng(k);
        let (cs, template) = gen_recursion(&mut r, big);
        ctx.count(&format!("recursion_template.{:02}", template), 1);
        run_case(ctx, "recursion", k, &cs, cap, &mut shrunk);
    }
    ctx.phase("bulk", ctx.by_tier(8, 1_600));
    while ctx.within(0.72) {
        let Some(k) = ctx.next_case() else { break };
        let mut r = ctx.rng(k);
        let cs = gen_bulk(&mut r);
        ctx.max("max_input_facts", cs.facts.len() as u64);
        run_case(ctx, "bulk", k, &cs, cap.saturating_mul(25), &mut shrunk);
    }
    ctx.phase("mixed", ctx.by_tier(3_000, 320_000));
    while let Some(k) = ctx.next_case() {
        let mut r = ctx.rng(k);
        let cs = gen_mixed(&mut r);
        run_case(ctx, "mixed", k, &cs, cap, &mut shrunk);
    }
}

fn main() {
    // 8/16 shard processes share the machine: keep each engine's rayon pool small (the
    // parallel strategy is still exercised with real worker threads)
    if std::env::var_os("RAYON_NUM_THREADS").is_none() {
        std::env::set_var("RAYON_NUM_THREADS", "4");
    }
    let mut spec = Spec::new("C05", "exploration", RULE);
    spec.assumptions = &[
        "rules are safe: >= 1 premise, every variable of a conclusion / filter / negative premise occurs in a positive premise (so the engine's ml_output_placeholder path is never taken)",
        "negation: one stratum; heads of rules with negative premises unify with no premise of any rule (the documented single pass); programs with negation contain no variable predicate",
        "filters: variable-constant comparisons only on variables bound to canonical integer literals, variable-variable only = and != (the domain where kvcore::mdatalog::eval_filter is defined); cases leaving that domain are skipped and counted",
        "terms are plain strings (a<n>, p<n>, v<n>, h<n>, n<n>, sub, canonical integers); no quoted triples",
        "scope bound: cases whose naive evaluation needs more than 400k (quick) / 1.5M (thorough) match steps are skipped and counted (deterministic, not wall-clock)",
        "provenance strategy observed with BooleanProvenance and no probability seeds",
        "trusted base: kvcore::mdatalog (cross-checked on every case against a second evaluator written differently in c05.rs)",
    ];
    spec.quick_budget_s = 40;
    spec.thorough_budget_s = 600;
    kvcore::run(spec, run);
}
