//! C19 — Inconsistency-tolerant answers are those true in every maximal repair.
//!
//! Events: the binding list returned by `Reasoner::query_with_repairs`, repeated in fresh
//! reasoners; the fact store after `infer_new_facts_semi_naive_with_repairs`.
//! Oracle: enumerate all 2^n subsets of the facts, keep the consistent ones (own matcher
//! from M-DATALOG), keep the subset-maximal ones, intersect the answers.

use datalog::reasoning::Reasoner;
use kvcore::mdatalog::{least_model, match_fact, solutions, Fact, Subst};
use kvcore::{guard, hash_str, json, panic_site, Ctx, Rng, Spec, Value};
use shared::rule::Rule;
use shared::terms::{Term, TriplePattern};
use shared::triple::Triple;
use std::collections::{BTreeMap, BTreeSet};

const RULE: &str = "random fact sets (<=10 facts over 2-4 constants, 1-3 predicates) x 1-3 denial constraints (1-3 premises sharing variables, one atom in six with a variable predicate, one case in four with facts about its own predicates; shapes: none/pair/chain/triangle/independent conflicts + unrelated facts) x 0-2 rules with 1-2 conclusions x every goal shape; each case repeated (6x quick, 20x thorough) in fresh Reasoners (per-instance hash seeds change the subset search order). Non-trivial = the fact set is inconsistent, has >= 2 maximal repairs and the oracle answer set is compared against a non-empty candidate set; distinct by hash of (facts, constraints, goal).";

fn term_name(i: u32) -> String {
    format!("t{}", i)
}

struct Case {
    facts: Vec<(String, String, String)>,
    constraints: Vec<Vec<(PT, PT, PT)>>,
    rules: Vec<(Vec<(PT, PT, PT)>, Vec<(PT, PT, PT)>)>,
    goal: (PT, PT, PT),
}

/// pattern term before dictionary encoding
#[derive(Clone, Debug, PartialEq, Eq, Hash)]
enum PT {
    V(String),
    C(String),
}

fn gen_pt(r: &mut Rng, vars: &[&str], consts: &[String], p_var: usize) -> PT {
    if r.chance(p_var, 100) {
        PT::V(r.pick(vars).to_string())
    } else {
        PT::C(r.pick(consts).clone())
    }
}

fn gen_case(r: &mut Rng) -> Case {
    let n_ent = r.range(2, 4);
    let n_pred = r.range(1, 3);
    let ents: Vec<String> = (0..n_ent as u32).map(term_name).collect();
    let preds: Vec<String> = (0..n_pred as u32).map(|i| format!("p{}", i)).collect();
    let n_facts = match r.below(10) { 0 => r.range(0, 2), 1 => r.range(9, 10), _ => r.range(3, 8) };
    let mut facts = BTreeSet::new();
    // one case in four talks about its own predicates (facts such as `p0 p1 e0`), so that a
    // constraint atom with a variable predicate can be joined with an atom about that predicate
    let meta = r.chance(1, 4);
    let mut pool = ents.clone();
    if meta {
        pool.extend(preds.iter().cloned());
    }
    for _ in 0..n_facts {
        let so = |r: &mut Rng| if meta && r.chance(1, 4) { r.pick(&preds).clone() } else { r.pick(&ents).clone() };
        facts.insert((so(r), r.pick(&preds).clone(), so(r)));
    }
    let ents = pool;
    let vars = ["X", "Y", "Z"];
    let n_con = if r.chance(1, 20) { 0 } else { r.range(1, 3) };
    let mut constraints = vec![];
    for _ in 0..n_con {
        let np = r.range(1, 3);
        let mut prem = vec![];
        for _ in 0..np {
            // variable predicates: a variable of its own or one shared with a subject/object position
            let pred = if r.chance(1, 6) { PT::V(r.pick(&["P", "X", "Y"]).to_string()) } else { PT::C(r.pick(&preds).clone()) };
            prem.push((gen_pt(r, &vars, &ents, 85), pred, gen_pt(r, &vars, &ents, 85)));
        }
        constraints.push(prem);
    }
    let mut rules = vec![];
    if r.chance(1, 2) {
        for _ in 0..r.range(1, 2) {
            let np = r.range(1, 2);
            let mut prem = vec![];
            for _ in 0..np {
                prem.push((gen_pt(r, &vars, &ents, 80), PT::C(r.pick(&preds).clone()), gen_pt(r, &vars, &ents, 80)));
            }
            let bound: Vec<&str> = prem.iter().flat_map(|p| [&p.0, &p.2]).filter_map(|t| if let PT::V(v) = t { Some(v.as_str()) } else { None }).collect();
            let head_t = |r: &mut Rng| -> PT {
                if !bound.is_empty() && r.chance(3, 4) {
                    PT::V(r.pick(&bound).to_string())
                } else {
                    PT::C(r.pick(&ents).clone())
                }
            };
            let head = (head_t(r), PT::C(r.pick(&preds).clone()), head_t(r));
            let mut heads = vec![head];
            if r.chance(1, 4) {
                // a second conclusion: it is checked against a store that already holds the first
                heads.push((head_t(r), PT::C(r.pick(&preds).clone()), head_t(r)));
            }
            rules.push((prem, heads));
        }
    }
    let goal = (gen_pt(r, &["A", "B"], &ents, 60), if r.chance(1, 5) { PT::V("P".into()) } else { PT::C(r.pick(&preds).clone()) }, gen_pt(r, &["A", "B", "A"], &ents, 60));
    Case { facts: facts.into_iter().collect(), constraints, rules, goal }
}

fn enc(re: &mut Reasoner, t: &PT) -> Term {
    match t {
        PT::V(v) => Term::Variable(v.clone()),
        PT::C(c) => Term::Constant(re.dictionary.write().unwrap().encode(c)),
    }
}
fn enc_pat(re: &mut Reasoner, p: &(PT, PT, PT)) -> TriplePattern {
    (enc(re, &p.0), enc(re, &p.1), enc(re, &p.2))
}

struct Built {
    re: Reasoner,
    facts: BTreeSet<Fact>,
    constraints: Vec<Vec<TriplePattern>>,
    rules: Vec<Rule>,
    goal: TriplePattern,
}

fn build(c: &Case, order: &mut Rng) -> Built {
    let mut re = Reasoner::new();
    let mut fs = c.facts.clone();
    order.shuffle(&mut fs);
    for (s, p, o) in &fs {
        re.add_abox_triple(s, p, o);
    }
    let facts: BTreeSet<Fact> = re.dataset_index.query(None, None, None).into_iter().map(|t| (t.subject, t.predicate, t.object)).collect();
    let mut constraints = vec![];
    for k in &c.constraints {
        let prem: Vec<TriplePattern> = k.iter().map(|p| enc_pat(&mut re, p)).collect();
        constraints.push(prem.clone());
        re.add_constraint(Rule { premise: prem, negative_premise: vec![], filters: vec![], conclusion: vec![] });
    }
    let mut rules = vec![];
    for (prem, concl) in &c.rules {
        let rule = Rule { premise: prem.iter().map(|p| enc_pat(&mut re, p)).collect(), negative_premise: vec![], filters: vec![], conclusion: concl.iter().map(|p| enc_pat(&mut re, p)).collect() };
        rules.push(rule);
    }
    let goal = enc_pat(&mut re, &c.goal);
    Built { re, facts, constraints, rules, goal }
}

fn consistent(s: &BTreeSet<Fact>, ks: &[Vec<TriplePattern>]) -> bool {
    ks.iter().all(|k| solutions(k, s).is_empty())
}

fn maximal_repairs(facts: &BTreeSet<Fact>, ks: &[Vec<TriplePattern>]) -> Vec<BTreeSet<Fact>> {
    let v: Vec<Fact> = facts.iter().copied().collect();
    let n = v.len();
    let mut cons: Vec<u32> = vec![];
    for mask in 0u32..(1u32 << n) {
        let s: BTreeSet<Fact> = (0..n).filter(|i| mask >> i & 1 == 1).map(|i| v[i]).collect();
        if consistent(&s, ks) {
            cons.push(mask);
        }
    }
    let maximal: Vec<u32> = cons.iter().copied().filter(|&m| !cons.iter().any(|&o| o != m && o & m == m)).collect();
    maximal.into_iter().map(|mask| (0..n).filter(|i| mask >> i & 1 == 1).map(|i| v[i]).collect()).collect()
}

fn answers_in(goal: &TriplePattern, s: &BTreeSet<Fact>) -> BTreeSet<Subst> {
    s.iter().filter_map(|&f| match_fact(goal, f, &Subst::new())).collect()
}

fn case_json(c: &Case) -> Value {
    let pt = |t: &PT| match t {
        PT::V(v) => format!("?{}", v),
        PT::C(c) => c.clone(),
    };
    let pat = |p: &(PT, PT, PT)| format!("{} {} {}", pt(&p.0), pt(&p.1), pt(&p.2));
    json!({
        "facts": c.facts.iter().map(|(s,p,o)| format!("{} {} {}", s,p,o)).collect::<Vec<_>>(),
        "constraints": c.constraints.iter().map(|k| k.iter().map(pat).collect::<Vec<_>>()).collect::<Vec<_>>(),
        "rules": c.rules.iter().map(|(b,h)| format!("{} => {}", b.iter().map(pat).collect::<Vec<_>>().join(" , "), h.iter().map(pat).collect::<Vec<_>>().join(" , "))).collect::<Vec<_>>(),
        "goal": pat(&c.goal),
    })
}

fn run(ctx: &mut Ctx) {
    let total = ctx.by_tier(30_000, 1_500_000);
    let reps = ctx.by_tier(6, 20);
    ctx.phase("repairs", total);
    while let Some(k) = ctx.next_case() {
        let mut r = ctx.rng(k);
        let c = gen_case(&mut r);
        let cj = case_json(&c);
        let mut order = ctx.rng_labeled("order", k);
        let b0 = build(&c, &mut order);
        let repairs = maximal_repairs(&b0.facts, &b0.constraints);
        let inconsistent = !consistent(&b0.facts, &b0.constraints);
        // oracle answers: bindings holding in every maximal repair
        let mut expect: Option<BTreeSet<Subst>> = None;
        for rp in &repairs {
            let a = answers_in(&b0.goal, rp);
            expect = Some(match expect {
                None => a,
                Some(e) => e.intersection(&a).cloned().collect(),
            });
        }
        let d0 = b0.re.dictionary.read().unwrap().clone();
        let lex = |m: &Subst, d: &shared::dictionary::Dictionary| -> BTreeMap<String, String> { m.iter().map(|(k, v)| (k.clone(), d.decode(*v).unwrap_or("?").to_string())).collect() };
        let expect: BTreeSet<BTreeMap<String, String>> = expect.unwrap_or_default().iter().map(|m| lex(m, &d0)).collect();
        let candidates = answers_in(&b0.goal, &b0.facts);
        ctx.count("repairs_total", repairs.len() as u64);
        ctx.max("max_repairs_in_a_case", repairs.len() as u64);
        if inconsistent {
            ctx.count("inconsistent_cases", 1);
        }
        if inconsistent && repairs.len() >= 2 && !candidates.is_empty() {
            ctx.nontrivial(hash_str(&cj.to_string()));
        }
        if ctx.wants_sample() && inconsistent {
            ctx.sample(json!({"case": cj, "maximal_repairs": repairs.len(), "oracle_answers": expect.len(), "candidate_answers": candidates.len()}));
        }
        // engine, repeated in fresh reasoners
        let mut first: Option<BTreeSet<BTreeMap<String, String>>> = None;
        for rep in 0..reps {
            let b = if rep == 0 { build(&c, &mut ctx.rng_labeled("order", k)) } else { build(&c, &mut order) };
            let goal = b.goal.clone();
            let re = b.re;
            let dk = re.dictionary.read().unwrap().clone();
            ctx.add_evals(1);
            let got = match guard(|| re.query_with_repairs(&goal)) {
                Ok(g) => g,
                Err(e) => {
                    ctx.violation(json!({"kind": "panic", "api": "query_with_repairs", "site": panic_site(&e)}), json!({"case": cj, "panic": e}));
                    break;
                }
            };
            let got_set: BTreeSet<BTreeMap<String, String>> = got.iter().map(|m| lex(&m.iter().map(|(k, v)| (k.clone(), *v)).collect::<Subst>(), &dk)).collect();
            if got_set.len() != got.len() {
                ctx.violation(json!({"kind": "duplicate_answers"}), json!({"case": cj, "returned": got.len(), "distinct": got_set.len()}));
            }
            if got_set != expect {
                let missing: Vec<_> = expect.difference(&got_set).take(3).cloned().collect();
                let extra: Vec<_> = got_set.difference(&expect).take(3).cloned().collect();
                let kind = if !extra.is_empty() && !missing.is_empty() { "answers_wrong_both_ways" } else if !missing.is_empty() { "answer_true_in_every_maximal_repair_missing" } else { "answer_not_true_in_every_maximal_repair_returned" };
                ctx.violation(json!({"kind": kind}), json!({"case": cj, "repetition": rep, "maximal_repairs": repairs.len(), "expected": expect.len(), "got": got_set.len(), "missing_sample": format!("{:?}", missing), "extra_sample": format!("{:?}", extra)}));
                break;
            }
            match &first {
                None => first = Some(got_set),
                Some(f) => {
                    if *f != got_set {
                        ctx.violation(json!({"kind": "answers_vary_between_runs"}), json!({"case": cj, "repetition": rep}));
                        break;
                    }
                }
            }
        }

        // repair-aware materialisation ends in a consistent fact set
        let mut b = build(&c, &mut order);
        for rule in &b.rules {
            b.re.add_rule(rule.clone());
        }
        let rules = b.rules.clone();
        let ks = b.constraints.clone();
        let input = b.facts.clone();
        let mut re = b.re;
        ctx.add_evals(1);
        match guard(move || {
            let derived = re.infer_new_facts_semi_naive_with_repairs();
            (re, derived)
        }) {
            Err(e) => ctx.violation(json!({"kind": "panic", "api": "infer_new_facts_semi_naive_with_repairs", "site": panic_site(&e)}), json!({"case": cj, "panic": e})),
            Ok((re, derived)) => {
                let after: BTreeSet<Fact> = re.dataset_index.query(None, None, None).into_iter().map(|t: Triple| (t.subject, t.predicate, t.object)).collect();
                ctx.count("materialisations", 1);
                if !derived.is_empty() {
                    ctx.count("materialisations_that_derived_facts", 1);
                }
                if !consistent(&after, &ks) {
                    ctx.violation(json!({"kind": "materialised_store_violates_a_constraint"}), json!({"case": cj, "store_size": after.len()}));
                }
                // soundness side conditions: nothing invented, base part is a maximal repair
                let dict = re.dictionary.read().unwrap().clone();
                let lm = least_model(&rules, &input, &|id| dict.decode(id).map(|s| s.to_string()));
                if let Some(f) = after.iter().find(|f| !lm.facts.contains(f)) {
                    ctx.violation(json!({"kind": "materialised_fact_not_entailed_by_input_and_rules"}), json!({"case": cj, "fact": format!("{:?}", f)}));
                }
                if inconsistent {
                    let base: BTreeSet<Fact> = after.intersection(&input).copied().collect();
                    // observation only (the property demands consistency, checked above): how often
                    // the retained input facts are exactly one of the maximal repairs
                    if repairs.iter().any(|rp| rp.is_subset(&after) && base.is_superset(rp)) {
                        ctx.count("materialisations_whose_base_is_a_maximal_repair", 1);
                    } else {
                        ctx.count("materialisations_whose_base_is_not_exactly_a_maximal_repair", 1);
                    }
                }
            }
        }
    }
}

fn main() {
    let mut spec = Spec::new("C19", "exploration", RULE);
    spec.assumptions = &[
        "constraints are denial constraints given as Rule premises only (violates_constraints ignores filters, negation and conclusions)",
        "facts <= 10 so that all 2^n subsets are enumerated by the oracle",
        "run-to-run variation is sampled by fresh Reasoner instances (std HashSet RandomState), 12/20 repetitions per case",
    ];
    spec.quick_budget_s = 35;
    spec.thorough_budget_s = 420;
    kvcore::run(spec, run);
}
