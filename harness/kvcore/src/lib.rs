//! Shared machinery of the Kolibrie runtime monitors (see /verif/DESIGN.md section 2).
pub mod ctx;
pub mod mdatalog;
pub mod rng;

pub use ctx::{guard, panic_site, run, Ctx, Spec, Tier};
pub use rng::{hash_bytes, hash_str, Rng};
pub use serde_json::{json, Value};
