//! SplitMix64: every random choice of every monitor derives from VERIF_SEED through this.

#[derive(Clone, Debug)]
pub struct Rng(pub u64);

pub fn mix(mut z: u64) -> u64 {
    z = z.wrapping_add(0x9E37_79B9_7F4A_7C15);
    z = (z ^ (z >> 30)).wrapping_mul(0xBF58_476D_1CE4_E5B9);
    z = (z ^ (z >> 27)).wrapping_mul(0x94D0_49BB_1331_11EB);
    z ^ (z >> 31)
}

/// FNV-1a over bytes, then mixed; used for case hashes and string -> seed.
pub fn hash_bytes(b: &[u8]) -> u64 {
    let mut h: u64 = 0xcbf2_9ce4_8422_2325;
    for &x in b {
        h ^= x as u64;
        h = h.wrapping_mul(0x0000_0100_0000_01B3);
    }
    mix(h)
}

pub fn hash_str(s: &str) -> u64 {
    hash_bytes(s.as_bytes())
}

impl Rng {
    pub fn new(seed: u64) -> Self {
        Rng(mix(seed ^ 0xA5A5_5A5A_1234_5678))
    }
    /// Independent stream for (seed, label, index).
    pub fn derive(seed: u64, label: &str, k: u64) -> Self {
        Rng::new(mix(seed) ^ hash_str(label).rotate_left(17) ^ mix(k.wrapping_mul(0x2545_F491_4F6C_DD1D).wrapping_add(1)))
    }
    pub fn next_u64(&mut self) -> u64 {
        self.0 = self.0.wrapping_add(0x9E37_79B9_7F4A_7C15);
        let mut z = self.0;
        z = (z ^ (z >> 30)).wrapping_mul(0xBF58_476D_1CE4_E5B9);
        z = (z ^ (z >> 27)).wrapping_mul(0x94D0_49BB_1331_11EB);
        z ^ (z >> 31)
    }
    /// uniform in 0..n (n > 0)
    pub fn below(&mut self, n: usize) -> usize {
        if n <= 1 {
            return 0;
        }
        (self.next_u64() % (n as u64)) as usize
    }
    /// uniform in lo..=hi
    pub fn range(&mut self, lo: usize, hi: usize) -> usize {
        if hi <= lo {
            return lo;
        }
        lo + self.below(hi - lo + 1)
    }
    pub fn chance(&mut self, num: usize, den: usize) -> bool {
        self.below(den) < num
    }
    pub fn coin(&mut self) -> bool {
        self.next_u64() & 1 == 1
    }
    pub fn f64(&mut self) -> f64 {
        (self.next_u64() >> 11) as f64 / (1u64 << 53) as f64
    }
    pub fn pick<'a, T>(&mut self, xs: &'a [T]) -> &'a T {
        &xs[self.below(xs.len())]
    }
    pub fn shuffle<T>(&mut self, xs: &mut [T]) {
        for i in (1..xs.len()).rev() {
            let j = self.below(i + 1);
            xs.swap(i, j);
        }
    }
    /// weighted choice: returns index
    pub fn weighted(&mut self, w: &[usize]) -> usize {
        let total: usize = w.iter().sum();
        let mut x = self.below(total.max(1));
        for (i, &wi) in w.iter().enumerate() {
            if x < wi {
                return i;
            }
            x -= wi;
        }
        w.len() - 1
    }
}
