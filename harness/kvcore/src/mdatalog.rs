//! M-DATALOG: deliberately naive reference semantics for Datalog over triples.
//!
//! * `solutions` – all substitutions that make a list of premises true in a fact set,
//!   by backtracking (constants, repeated variables, variable predicates).
//! * `least_model` – naive bottom-up iteration to the least fixpoint of the positive
//!   rules; records for every fact the first round in which it appears (= minimal
//!   derivation height; input facts have height 0).
//! * `stratified_model` – positive fixpoint of the rules without negation, followed by
//!   ONE pass of the rules that have negative premises, evaluated against that fixpoint
//!   (the single negative stratum the engine documents; heads of negative rules feed
//!   nothing).
//!
//! Independent of the engine: no hash joins, no deltas, no rule index, no string bindings.

use shared::rule::{FilterCondition, Rule};
use shared::terms::{Term, TriplePattern};
use std::collections::{BTreeMap, BTreeSet};

pub type Fact = (u32, u32, u32);
pub type Subst = BTreeMap<String, u32>;

fn bind(t: &Term, v: u32, s: &mut Subst) -> bool {
    match t {
        Term::Constant(c) => *c == v,
        Term::Variable(name) => match s.get(name) {
            Some(&b) => b == v,
            None => {
                s.insert(name.clone(), v);
                true
            }
        },
        Term::QuotedTriple(_) => false,
    }
}

pub fn match_fact(p: &TriplePattern, f: Fact, s: &Subst) -> Option<Subst> {
    let mut s2 = s.clone();
    if bind(&p.0, f.0, &mut s2) && bind(&p.1, f.1, &mut s2) && bind(&p.2, f.2, &mut s2) {
        Some(s2)
    } else {
        None
    }
}

pub fn solutions(premises: &[TriplePattern], facts: &BTreeSet<Fact>) -> Vec<Subst> {
    let mut cur = vec![Subst::new()];
    for p in premises {
        let mut next = vec![];
        for s in &cur {
            for &f in facts {
                if let Some(s2) = match_fact(p, f, s) {
                    next.push(s2);
                }
            }
        }
        cur = next;
        if cur.is_empty() {
            break;
        }
    }
    cur
}

pub fn instantiate(p: &TriplePattern, s: &Subst) -> Option<Fact> {
    let g = |t: &Term| -> Option<u32> {
        match t {
            Term::Constant(c) => Some(*c),
            Term::Variable(v) => s.get(v).copied(),
            Term::QuotedTriple(_) => None,
        }
    };
    Some((g(&p.0)?, g(&p.1)?, g(&p.2)?))
}

/// Three-valued filter result: `None` = outside the domain on which the meaning of the
/// filter is unambiguous (unbound variable, non-numeric operand of an ordering test).
pub fn eval_filter(f: &FilterCondition, s: &Subst, decode: &dyn Fn(u32) -> Option<String>) -> Option<bool> {
    let lhs = *s.get(&f.variable)?;
    if let Some(&rhs) = s.get(&f.value) {
        return match f.operator.as_str() {
            "=" => Some(lhs == rhs),
            "!=" => Some(lhs != rhs),
            _ => None,
        };
    }
    let l: f64 = decode(lhs)?.parse().ok()?;
    let r: f64 = f.value.parse().ok()?;
    Some(match f.operator.as_str() {
        ">" => l > r,
        "<" => l < r,
        ">=" => l >= r,
        "<=" => l <= r,
        "=" => l == r,
        "!=" => l != r,
        _ => return None,
    })
}

#[derive(Clone, Debug, Default)]
pub struct Model {
    pub facts: BTreeSet<Fact>,
    /// first naive round at which the fact is present (0 = input)
    pub height: BTreeMap<Fact, u32>,
    /// a filter was evaluated outside its unambiguous domain: the case must be classified
    /// separately by the caller
    pub outside_domain: bool,
    pub rounds: u32,
}

/// All immediate consequences of `rules` over `facts`.
fn consequences(rules: &[&Rule], facts: &BTreeSet<Fact>, neg_against: Option<&BTreeSet<Fact>>, decode: &dyn Fn(u32) -> Option<String>, outside: &mut bool) -> BTreeSet<Fact> {
    let mut out = BTreeSet::new();
    for r in rules {
        'sol: for s in solutions(&r.premise, facts) {
            for f in &r.filters {
                match eval_filter(f, &s, decode) {
                    Some(true) => {}
                    Some(false) => continue 'sol,
                    None => {
                        *outside = true;
                        continue 'sol;
                    }
                }
            }
            if let Some(m) = neg_against {
                for np in &r.negative_premise {
                    match instantiate(np, &s) {
                        Some(nf) => {
                            if m.contains(&nf) {
                                continue 'sol;
                            }
                        }
                        None => {
                            *outside = true;
                            continue 'sol;
                        }
                    }
                }
            }
            for c in &r.conclusion {
                if let Some(f) = instantiate(c, &s) {
                    out.insert(f);
                } else {
                    *outside = true;
                }
            }
        }
    }
    out
}

pub fn least_model(rules: &[Rule], input: &BTreeSet<Fact>, decode: &dyn Fn(u32) -> Option<String>) -> Model {
    let pos: Vec<&Rule> = rules.iter().collect();
    least_model_of(&pos, input, decode)
}

fn least_model_of(rules: &[&Rule], input: &BTreeSet<Fact>, decode: &dyn Fn(u32) -> Option<String>) -> Model {
    let mut m = Model { facts: input.clone(), ..Default::default() };
    for f in input {
        m.height.insert(*f, 0);
    }
    let mut round = 0u32;
    loop {
        round += 1;
        let new: Vec<Fact> = consequences(rules, &m.facts, None, decode, &mut m.outside_domain).into_iter().filter(|f| !m.facts.contains(f)).collect();
        if new.is_empty() {
            break;
        }
        for f in new {
            m.facts.insert(f);
            m.height.insert(f, round);
        }
        if round > 100_000 {
            m.outside_domain = true;
            break;
        }
    }
    m.rounds = round;
    m
}

/// Positive fixpoint of the negation-free rules, then one pass of the rules with negative
/// premises against that fixpoint.
pub fn stratified_model(rules: &[Rule], input: &BTreeSet<Fact>, decode: &dyn Fn(u32) -> Option<String>) -> Model {
    let pos: Vec<&Rule> = rules.iter().filter(|r| r.negative_premise.is_empty()).collect();
    let neg: Vec<&Rule> = rules.iter().filter(|r| !r.negative_premise.is_empty()).collect();
    let mut m = least_model_of(&pos, input, decode);
    if !neg.is_empty() {
        let snapshot = m.facts.clone();
        let extra = consequences(&neg, &snapshot, Some(&snapshot), decode, &mut m.outside_domain);
        let h = m.rounds + 1;
        for f in extra {
            if m.facts.insert(f) {
                m.height.insert(f, h);
            }
        }
    }
    m
}

/// Does any positive rule consume a predicate/shape that a negative rule produces?  The
/// single-pass stratum is only well defined when it does not; generators use this to stay
/// inside the documented fragment.
pub fn negative_heads_feed_rules(rules: &[Rule]) -> bool {
    let heads: Vec<&TriplePattern> = rules.iter().filter(|r| !r.negative_premise.is_empty()).flat_map(|r| r.conclusion.iter()).collect();
    let unify = |a: &Term, b: &Term| -> bool {
        match (a, b) {
            (Term::Constant(x), Term::Constant(y)) => x == y,
            _ => true,
        }
    };
    for r in rules {
        for p in r.premise.iter().chain(r.negative_premise.iter()) {
            for h in &heads {
                if unify(&p.0, &h.0) && unify(&p.1, &h.1) && unify(&p.2, &h.2) {
                    return true;
                }
            }
        }
    }
    false
}

pub fn rule_is_safe(r: &Rule) -> bool {
    let mut bound: BTreeSet<&str> = BTreeSet::new();
    for p in &r.premise {
        for t in [&p.0, &p.1, &p.2] {
            if let Term::Variable(v) = t {
                bound.insert(v.as_str());
            }
        }
    }
    let ok = |p: &TriplePattern| [&p.0, &p.1, &p.2].iter().all(|t| match t {
        Term::Variable(v) => bound.contains(v.as_str()),
        Term::Constant(_) => true,
        Term::QuotedTriple(_) => false,
    });
    r.conclusion.iter().all(ok) && r.negative_premise.iter().all(ok) && r.filters.iter().all(|f| bound.contains(f.variable.as_str()))
}
