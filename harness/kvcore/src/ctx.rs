//! Shared runtime of every monitor binary: argument parsing, sharding over worker
//! processes, seeded case iteration, panic capture, violation / known-finding handling,
//! evidence writing and the three-valued exit code (0 held, 1 violated, 2 inconclusive).

use crate::rng::{hash_str, Rng};
use serde_json::{json, Map, Value};
use std::cell::RefCell;
use std::collections::{BTreeMap, BTreeSet, HashSet};
use std::io::Write;
use std::panic::{catch_unwind, AssertUnwindSafe};
use std::path::{Path, PathBuf};
use std::process::{Command, Stdio};
use std::time::{Duration, Instant};

#[derive(Clone, Copy, PartialEq, Eq, Debug)]
pub enum Tier {
    Quick,
    Thorough,
}

pub struct Spec {
    pub id: &'static str,
    /// "exploration" or "fault_enumeration"
    pub level: &'static str,
    /// how cases are generated and what makes one distinct / non-trivial
    pub rule: &'static str,
    pub assumptions: &'static [&'static str],
    pub quick_shards: usize,
    pub thorough_shards: usize,
    /// soft workload cap per shard in seconds (a cap on work, never a verdict)
    pub quick_budget_s: u64,
    pub thorough_budget_s: u64,
    /// set when the run enumerates a finite space completely (per phase flags are in counters)
    pub exhaustive: bool,
}

impl Spec {
    pub const fn new(id: &'static str, level: &'static str, rule: &'static str) -> Spec {
        Spec {
            id,
            level,
            rule,
            assumptions: &[],
            quick_shards: 8,
            thorough_shards: 16,
            quick_budget_s: 40,
            thorough_budget_s: 600,
            exhaustive: false,
        }
    }
}

#[derive(Clone, Debug)]
struct Args {
    tier: Tier,
    seed: u64,
    evidence: Option<PathBuf>,
    findings: Option<PathBuf>,
    replay_dir: PathBuf,
    replay: Option<PathBuf>,
    shard: Option<(usize, usize)>,
    part_out: Option<PathBuf>,
    shards: Option<usize>,
    budget: Option<u64>,
    build: String,
    only: Option<(String, u64)>,
    skip_cases: Vec<(String, u64)>,
    budget_scale: u64,
    also: Option<PathBuf>,
}

fn parse_args() -> Args {
    let mut a = Args {
        tier: match std::env::var("VERIF_TIER").ok().as_deref() {
            Some("thorough") => Tier::Thorough,
            _ => Tier::Quick,
        },
        seed: std::env::var("VERIF_SEED").ok().and_then(|s| s.trim().parse::<i64>().ok()).map(|v| v as u64).unwrap_or(1),
        evidence: None,
        findings: None,
        replay_dir: PathBuf::from("replay"),
        replay: None,
        shard: None,
        part_out: None,
        shards: None,
        budget: None,
        build: "checked".to_string(),
        only: None,
        skip_cases: vec![],
        budget_scale: 100,
        also: None,
    };
    let argv: Vec<String> = std::env::args().collect();
    let mut i = 1;
    while i < argv.len() {
        let k = argv[i].as_str();
        let v = argv.get(i + 1).cloned();
        let need = |v: Option<String>| -> String {
            v.unwrap_or_else(|| {
                eprintln!("missing value for {}", k);
                std::process::exit(2)
            })
        };
        match k {
            "--tier" => {
                a.tier = if need(v) == "thorough" { Tier::Thorough } else { Tier::Quick };
                i += 2;
            }
            "--seed" => {
                a.seed = need(v).parse::<i64>().map(|x| x as u64).unwrap_or(1);
                i += 2;
            }
            "--evidence" => {
                a.evidence = Some(PathBuf::from(need(v)));
                i += 2;
            }
            "--findings" => {
                a.findings = Some(PathBuf::from(need(v)));
                i += 2;
            }
            "--replay-dir" => {
                a.replay_dir = PathBuf::from(need(v));
                i += 2;
            }
            "--replay" => {
                a.replay = Some(PathBuf::from(need(v)));
                i += 2;
            }
            "--shard" => {
                let s = need(v);
                let mut it = s.split('/');
                let x = it.next().and_then(|x| x.parse().ok()).unwrap_or(0);
                let n = it.next().and_then(|x| x.parse().ok()).unwrap_or(1);
                a.shard = Some((x, n));
                i += 2;
            }
            "--part-out" => {
                a.part_out = Some(PathBuf::from(need(v)));
                i += 2;
            }
            "--shards" => {
                a.shards = need(v).parse().ok();
                i += 2;
            }
            "--budget" => {
                a.budget = need(v).parse().ok();
                i += 2;
            }
            "--build" => {
                a.build = need(v);
                i += 2;
            }
            "--budget-scale" => {
                a.budget_scale = need(v).parse().unwrap_or(100);
                i += 2;
            }
            "--also" => {
                a.also = Some(PathBuf::from(need(v)));
                i += 2;
            }
            "--skip-case" => {
                let s = need(v);
                if let Some((p, k)) = s.rsplit_once(':') {
                    a.skip_cases.push((p.to_string(), k.parse().unwrap_or(0)));
                }
                i += 2;
            }
            "--only" => {
                // phase:k
                let s = need(v);
                if let Some((p, k)) = s.rsplit_once(':') {
                    a.only = Some((p.to_string(), k.parse().unwrap_or(0)));
                }
                i += 2;
            }
            _ => {
                eprintln!("unknown argument {}", k);
                std::process::exit(2);
            }
        }
    }
    a
}

// ---------------------------------------------------------------------------------------
// panic capture

thread_local! {
    static QUIET: RefCell<bool> = RefCell::new(false);
    static LAST_PANIC: RefCell<Option<String>> = RefCell::new(None);
}

fn install_panic_hook() {
    let default = std::panic::take_hook();
    std::panic::set_hook(Box::new(move |info| {
        let msg = if let Some(s) = info.payload().downcast_ref::<&str>() {
            s.to_string()
        } else if let Some(s) = info.payload().downcast_ref::<String>() {
            s.clone()
        } else {
            "<non-string panic>".to_string()
        };
        let loc = info.location().map(|l| format!("{}:{}", l.file(), l.line())).unwrap_or_default();
        let quiet = QUIET.with(|q| *q.borrow());
        LAST_PANIC.with(|p| *p.borrow_mut() = Some(format!("{} @ {}", msg, loc)));
        if !quiet && std::env::var("KV_SHOW_PANICS").is_ok() {
            default(info);
        }
    }));
}

/// Run `f`, turning a panic of the code under test into `Err("message @ file:line")`.
pub fn guard<T>(f: impl FnOnce() -> T) -> Result<T, String> {
    let prev = QUIET.with(|q| std::mem::replace(&mut *q.borrow_mut(), true));
    LAST_PANIC.with(|p| *p.borrow_mut() = None);
    let r = catch_unwind(AssertUnwindSafe(f));
    QUIET.with(|q| *q.borrow_mut() = prev);
    match r {
        Ok(v) => Ok(v),
        Err(_) => Err(LAST_PANIC.with(|p| p.borrow_mut().take()).unwrap_or_else(|| "panic (other thread?)".to_string())),
    }
}

/// The source location part ("file:line") of a guard() error, for signatures.
pub fn panic_site(msg: &str) -> String {
    match msg.rsplit_once(" @ ") {
        Some((_, loc)) => {
            // keep the path relative to the repository
            match loc.find("/repo/") {
                Some(i) => loc[i + 6..].to_string(),
                None => loc.to_string(),
            }
        }
        None => String::new(),
    }
}

// ---------------------------------------------------------------------------------------

#[derive(Clone, Debug)]
pub struct Violation {
    pub phase: String,
    pub case: u64,
    pub signature: Value,
    pub detail: Value,
}

pub struct Ctx {
    pub id: &'static str,
    tier: Tier,
    seed: u64,
    shard: usize,
    nshards: usize,
    only: Option<(String, u64)>,
    /// cases a previous run of this shard could not finish because the worker was killed from outside
    skip_cases: Vec<(String, u64)>,
    deadline: Instant,
    started: Instant,
    cur_path: Option<PathBuf>,
    // phase iteration
    phase: String,
    phase_total: u64,
    phase_next: u64,
    cur_case: u64,
    // observations
    evaluations: u64,
    cases: u64,
    counters: BTreeMap<String, u64>,
    maxima: BTreeMap<String, u64>,
    sets: BTreeMap<String, BTreeSet<String>>,
    distinct: HashSet<u64>,
    samples: Vec<Value>,
    samples_per_phase: BTreeMap<String, usize>,
    violations: Vec<Violation>,
    violation_count: u64,
    seen_sigs: HashSet<String>,
    inconclusive: Vec<String>,
    budget_stopped: bool,
}

const MAX_DISTINCT: usize = 2_000_000;

impl Ctx {
    pub fn tier(&self) -> Tier {
        self.tier
    }
    pub fn thorough(&self) -> bool {
        self.tier == Tier::Thorough
    }
    /// pick a size by tier
    pub fn by_tier<T>(&self, quick: T, thorough: T) -> T {
        if self.thorough() {
            thorough
        } else {
            quick
        }
    }
    pub fn seed(&self) -> u64 {
        self.seed
    }
    pub fn shard(&self) -> (usize, usize) {
        (self.shard, self.nshards)
    }
    pub fn replaying(&self) -> bool {
        self.only.is_some()
    }

    /// Start a phase of `total` cases numbered 0..total; this shard gets k ≡ shard (mod nshards).
    pub fn phase(&mut self, name: &str, total: u64) {
        self.phase = name.to_string();
        self.phase_total = total;
        self.phase_next = self.shard as u64;
        if let Some((p, k)) = &self.only {
            if p == name {
                self.phase_next = *k;
                self.phase_total = *k + 1;
            } else {
                self.phase_total = 0;
            }
        }
    }

    /// Next case index of the current phase for this shard, or None when the phase is
    /// finished or the soft workload budget is used up.
    pub fn next_case(&mut self) -> Option<u64> {
        if self.phase_next >= self.phase_total {
            return None;
        }
        if self.only.is_none() && Instant::now() >= self.deadline {
            self.budget_stopped = true;
            *self.counters.entry(format!("budget_stopped_in_phase.{}", self.phase)).or_insert(0) += 1;
            self.phase_next = self.phase_total;
            return None;
        }
        let k = self.phase_next;
        self.phase_next += if self.only.is_some() { 1 } else { self.nshards as u64 };
        if self.skip_cases.iter().any(|(p, c)| *p == self.phase && *c == k) {
            *self.counters.entry("cases_not_explored.worker_process_was_killed_from_outside(SIGKILL,e.g.out_of_memory)".to_string()).or_insert(0) += 1;
            return self.next_case();
        }
        self.cur_case = k;
        self.cases += 1;
        *self.counters.entry(format!("cases.{}", self.phase)).or_insert(0) += 1;
        if let Some(p) = &self.cur_path {
            let _ = std::fs::write(p, format!("{}:{}", self.phase, k));
        }
        Some(k)
    }

    /// true while the soft workload budget is not used up (for inner loops)
    pub fn time_left(&self) -> bool {
        self.only.is_some() || Instant::now() < self.deadline
    }
    /// fraction of the budget already used, 0.0..=1.0+
    pub fn budget_used(&self) -> f64 {
        let total = self.deadline.duration_since(self.started).as_secs_f64().max(1e-9);
        self.started.elapsed().as_secs_f64() / total
    }
    /// true while less than `frac` of the whole budget has been used: lets a monitor give
    /// each of its phases a share of the time.
    pub fn within(&self, frac: f64) -> bool {
        self.only.is_some() || self.budget_used() < frac
    }

    /// Deterministic generator for case k of the current phase (independent of sharding).
    pub fn rng(&self, k: u64) -> Rng {
        Rng::derive(self.seed, &format!("{}/{}", self.id, self.phase), k)
    }
    pub fn rng_labeled(&self, label: &str, k: u64) -> Rng {
        Rng::derive(self.seed, &format!("{}/{}/{}", self.id, self.phase, label), k)
    }

    pub fn add_evals(&mut self, n: u64) {
        self.evaluations += n;
    }
    pub fn count(&mut self, key: &str, n: u64) {
        *self.counters.entry(key.to_string()).or_insert(0) += n;
    }
    pub fn max(&mut self, key: &str, v: u64) {
        let e = self.maxima.entry(key.to_string()).or_insert(0);
        if v > *e {
            *e = v;
        }
    }
    /// record membership in a small named set (operators covered, plan kinds seen, …)
    pub fn note(&mut self, set: &str, item: &str) {
        let s = self.sets.entry(set.to_string()).or_default();
        if s.len() < 400 {
            s.insert(item.to_string());
        }
    }
    /// a case that is non-trivial by the monitor's stated rule, identified by a hash
    pub fn nontrivial(&mut self, hash: u64) {
        if self.distinct.len() < MAX_DISTINCT {
            self.distinct.insert(hash);
        }
    }
    pub fn nontrivial_str(&mut self, s: &str) {
        self.nontrivial(hash_str(s));
    }
    pub fn sample(&mut self, v: Value) {
        let n = self.samples_per_phase.entry(self.phase.clone()).or_insert(0);
        if *n < 2 {
            *n += 1;
            self.samples.push(json!({"phase": self.phase, "case": self.cur_case, "case_data": v}));
        }
    }
    pub fn wants_sample(&self) -> bool {
        self.samples_per_phase.get(&self.phase).copied().unwrap_or(0) < 2
    }

    /// The oracle refuted the property on the current case.
    /// `signature`: small canonical object naming *what* fails (used for known-finding
    /// matching and de-duplication); `detail`: the witness.
    pub fn violation(&mut self, signature: Value, detail: Value) {
        self.violation_count += 1;
        let key = signature.to_string();
        *self.counters.entry("violating_observations".to_string()).or_insert(0) += 1;
        if self.seen_sigs.insert(key) && self.violations.len() < 40 {
            self.violations.push(Violation { phase: self.phase.clone(), case: self.cur_case, signature, detail });
        }
    }
    pub fn inconclusive(&mut self, why: &str) {
        if self.inconclusive.len() < 20 {
            self.inconclusive.push(format!("{}:{}: {}", self.phase, self.cur_case, why));
        }
    }

    fn to_part(&self) -> Value {
        json!({
            "shard": self.shard,
            "evaluations": self.evaluations,
            "cases": self.cases,
            "counters": self.counters,
            "maxima": self.maxima,
            "sets": self.sets.iter().map(|(k, v)| (k.clone(), Value::from(v.iter().cloned().collect::<Vec<_>>()))).collect::<Map<String, Value>>(),
            "samples": self.samples,
            "violations": self.violations.iter().map(|v| json!({"phase": v.phase, "case": v.case, "signature": v.signature, "detail": v.detail})).collect::<Vec<_>>(),
            "violation_count": self.violation_count,
            "inconclusive": self.inconclusive,
            "budget_stopped": self.budget_stopped,
            "wall_s": self.started.elapsed().as_secs_f64(),
        })
    }
}

fn new_ctx(spec: &Spec, a: &Args, shard: usize, nshards: usize, budget: u64) -> Ctx {
    let now = Instant::now();
    Ctx {
        id: spec.id,
        tier: a.tier,
        seed: a.seed,
        shard,
        nshards,
        only: a.only.clone(),
        skip_cases: a.skip_cases.clone(),
        deadline: now + Duration::from_secs(budget),
        started: now,
        cur_path: a.part_out.as_ref().map(|p| p.with_extension("cur")),
        phase: String::new(),
        phase_total: 0,
        phase_next: 0,
        cur_case: 0,
        evaluations: 0,
        cases: 0,
        counters: BTreeMap::new(),
        maxima: BTreeMap::new(),
        sets: BTreeMap::new(),
        distinct: HashSet::new(),
        samples: Vec::new(),
        samples_per_phase: BTreeMap::new(),
        violations: Vec::new(),
        violation_count: 0,
        seen_sigs: HashSet::new(),
        inconclusive: Vec::new(),
        budget_stopped: false,
    }
}

fn write_hashes(path: &Path, set: &HashSet<u64>) {
    let mut buf = Vec::with_capacity(set.len() * 8);
    for h in set {
        buf.extend_from_slice(&h.to_le_bytes());
    }
    let _ = std::fs::write(path, buf);
}

fn read_hashes(path: &Path, into: &mut HashSet<u64>) {
    if let Ok(b) = std::fs::read(path) {
        for c in b.chunks_exact(8) {
            let mut x = [0u8; 8];
            x.copy_from_slice(c);
            into.insert(u64::from_le_bytes(x));
        }
    }
}

struct Known {
    signature: Value,
    what: String,
}

fn load_findings(path: &Option<PathBuf>, id: &str) -> Result<Vec<Known>, String> {
    let Some(p) = path else { return Ok(vec![]) };
    let txt = match std::fs::read_to_string(p) {
        Ok(t) => t,
        Err(_) => return Ok(vec![]),
    };
    let v: Value = serde_json::from_str(&txt).map_err(|e| format!("known findings file unreadable: {}", e))?;
    let mut out = vec![];
    if let Some(arr) = v.get("findings").and_then(|x| x.as_array()) {
        for f in arr {
            if f.get("property").and_then(|x| x.as_str()) == Some(id) {
                out.push(Known {
                    signature: f.get("signature").cloned().unwrap_or(Value::Null),
                    what: f.get("what").and_then(|x| x.as_str()).unwrap_or("").to_string(),
                });
            }
        }
    }
    Ok(out)
}

/// Entry point of every monitor binary.
pub fn run(spec: Spec, f: fn(&mut Ctx)) -> ! {
    install_panic_hook();
    let mut a = parse_args();

    // replay: single process, single case
    if let Some(rp) = a.replay.clone() {
        let txt = std::fs::read_to_string(&rp).unwrap_or_else(|e| {
            eprintln!("cannot read replay file: {}", e);
            std::process::exit(2)
        });
        let v: Value = serde_json::from_str(&txt).unwrap_or(Value::Null);
        a.seed = v.get("seed").and_then(|x| x.as_u64()).unwrap_or(a.seed);
        a.tier = if v.get("tier").and_then(|x| x.as_str()) == Some("thorough") { Tier::Thorough } else { Tier::Quick };
        let phase = v.get("phase").and_then(|x| x.as_str()).unwrap_or("").to_string();
        let case = v.get("case").and_then(|x| x.as_u64()).unwrap_or(0);
        a.only = Some((phase, case));
    }

    if a.shard.is_some() || a.only.is_some() {
        let (shard, n) = a.shard.unwrap_or((0, 1));
        let budget = a.budget.unwrap_or(match a.tier {
            Tier::Quick => spec.quick_budget_s,
            Tier::Thorough => spec.thorough_budget_s,
        });
        let mut ctx = new_ctx(&spec, &a, shard, n, budget);
        let r = guard(|| f(&mut ctx));
        if let Err(e) = r {
            ctx.inconclusive.push(format!("monitor itself panicked in {}:{}: {}", ctx.phase, ctx.cur_case, e));
        }
        if let Some(p) = &a.part_out {
            write_hashes(&p.with_extension("hashes"), &ctx.distinct);
            let _ = std::fs::write(p, ctx.to_part().to_string());
            std::process::exit(0);
        }
        // replay / single-case mode: report directly
        let known = load_findings(&a.findings, spec.id).unwrap_or_default();
        let mut bad = false;
        for v in &ctx.violations {
            if let Some(k) = known.iter().find(|k| k.signature == v.signature) {
                println!("KNOWN-FINDING: property={} {}", spec.id, k.what);
            } else {
                bad = true;
                println!("VIOLATION property={} replay={}", spec.id, a.replay.as_ref().map(|p| p.display().to_string()).unwrap_or_default());
                println!("{}", serde_json::to_string_pretty(&json!({"signature": v.signature, "detail": v.detail})).unwrap_or_default());
            }
        }
        for m in &ctx.inconclusive {
            println!("INCONCLUSIVE: {}", m);
        }
        if bad {
            std::process::exit(1);
        }
        if !ctx.inconclusive.is_empty() {
            std::process::exit(2);
        }
        println!("replay: no violation reproduced ({} cases)", ctx.cases);
        std::process::exit(0);
    }

    // ---------------- parent: spawn shards, merge, decide ----------------
    let t0 = Instant::now();
    let nshards = a.shards.unwrap_or(match a.tier {
        Tier::Quick => spec.quick_shards,
        Tier::Thorough => spec.thorough_shards,
    }).max(1);
    let budget = a.budget.unwrap_or(match a.tier {
        Tier::Quick => spec.quick_budget_s,
        Tier::Thorough => spec.thorough_budget_s,
    }) * a.budget_scale / 100;
    let exe = std::env::current_exe().expect("current_exe");
    let tmp = std::env::temp_dir().join(format!("kv-{}-{}-{}", spec.id, std::process::id(), a.seed));
    let _ = std::fs::remove_dir_all(&tmp);
    std::fs::create_dir_all(&tmp).expect("tmp dir");
    let tier_s = if a.tier == Tier::Thorough { "thorough" } else { "quick" };
    let mut kids = vec![];
    let spawn_shard = |i: usize, skips: &[String]| {
        let part = tmp.join(format!("part{}.json", i));
        let mut c = Command::new(&exe);
        c.arg("--tier").arg(tier_s).arg("--seed").arg(format!("{}", a.seed as i64)).arg("--shard").arg(format!("{}/{}", i, nshards)).arg("--part-out").arg(&part).arg("--budget").arg(budget.to_string()).arg("--build").arg(&a.build);
        for s in skips {
            c.arg("--skip-case").arg(s);
        }
        c.stdin(Stdio::null());
        let err_path = tmp.join(format!("part{}.stderr", i));
        if let Ok(fh) = std::fs::File::create(&err_path) {
            c.stderr(Stdio::from(fh));
        }
        c.stdout(Stdio::null());
        let child = c.spawn().expect("spawn shard");
        (i, part, child, err_path)
    };
    for i in 0..nshards {
        kids.push(spawn_shard(i, &[]));
    }
    // generous wall-clock watchdog: its firing is inconclusive, never a violation
    let watchdog = Duration::from_secs(budget * 4 + 600);
    let mut inconclusive: Vec<String> = vec![];
    let mut abort_violations: Vec<Violation> = vec![];
    let mut parts: Vec<Value> = vec![];
    let mut distinct: HashSet<u64> = HashSet::new();
    for kid in kids {
        // A worker killed from outside (SIGKILL: the kernel's out-of-memory killer, an operator)
        // says nothing about the property. The shard is started again without the case it was
        // working on (at most twice); the case is counted as not explored in the evidence.
        let mut skips: Vec<String> = vec![];
        let mut kid = kid;
        loop {
        let (i, part, mut child, err_path) = kid;
        let status = loop {
            match child.try_wait() {
                Ok(Some(st)) => break Some(st),
                Ok(None) => {
                    if t0.elapsed() > watchdog {
                        let _ = child.kill();
                        let _ = child.wait();
                        break None;
                    }
                    std::thread::sleep(Duration::from_millis(50));
                }
                Err(_) => break None,
            }
        };
        match status {
            None => inconclusive.push(format!("shard {} exceeded the wall-clock watchdog and was killed", i)),
            Some(st) => {
                let body = std::fs::read_to_string(&part).ok().and_then(|t| serde_json::from_str::<Value>(&t).ok());
                if st.success() && body.is_some() {
                    read_hashes(&part.with_extension("hashes"), &mut distinct);
                    parts.push(body.unwrap());
                } else {
                    use std::os::unix::process::ExitStatusExt;
                    let cur = std::fs::read_to_string(part.with_extension("cur")).unwrap_or_default();
                    let (ph, k) = cur.rsplit_once(':').map(|(p, k)| (p.to_string(), k.parse::<u64>().unwrap_or(0))).unwrap_or_default();
                    let errtail: String = std::fs::read_to_string(&err_path).unwrap_or_default().lines().rev().take(6).collect::<Vec<_>>().into_iter().rev().collect::<Vec<_>>().join(" | ");
                    match st.signal() {
                        Some(sig) if [4, 6, 7, 8, 11].contains(&sig) && !cur.is_empty() => {
                            // the code under test took the whole process down while a case was executing
                            abort_violations.push(Violation {
                                phase: ph.clone(),
                                case: k,
                                signature: json!({"kind": "process_abort", "signal": sig, "phase": ph}),
                                detail: json!({"stderr_tail": errtail, "shard": i}),
                            });
                        }
                        Some(9) if !cur.is_empty() && skips.len() < 2 => {
                            println!("NOTE: shard {} was killed from outside (SIGKILL) while working on case {}; restarted without that case", i, cur);
                            skips.push(cur.clone());
                            kid = spawn_shard(i, &skips);
                            continue;
                        }
                        other => inconclusive.push(format!("shard {} ended abnormally (signal {:?}, code {:?}) at case {}: {}", i, other, st.code(), cur, errtail)),
                    }
                }
            }
        }
        break;
        }
    }

    // merge
    let mut evaluations = 0u64;
    let mut cases = 0u64;
    let mut counters: BTreeMap<String, u64> = BTreeMap::new();
    let mut maxima: BTreeMap<String, u64> = BTreeMap::new();
    let mut sets: BTreeMap<String, BTreeSet<String>> = BTreeMap::new();
    let mut samples: Vec<Value> = vec![];
    let mut violations: Vec<Violation> = abort_violations;
    let mut violation_count = violations.len() as u64;
    let mut budget_stopped = 0u64;
    for p in &parts {
        evaluations += p["evaluations"].as_u64().unwrap_or(0);
        cases += p["cases"].as_u64().unwrap_or(0);
        if let Some(m) = p["counters"].as_object() {
            for (k, v) in m {
                *counters.entry(k.clone()).or_insert(0) += v.as_u64().unwrap_or(0);
            }
        }
        if let Some(m) = p["maxima"].as_object() {
            for (k, v) in m {
                let e = maxima.entry(k.clone()).or_insert(0);
                *e = (*e).max(v.as_u64().unwrap_or(0));
            }
        }
        if let Some(m) = p["sets"].as_object() {
            for (k, v) in m {
                let e = sets.entry(k.clone()).or_default();
                for it in v.as_array().into_iter().flatten() {
                    if let Some(s) = it.as_str() {
                        e.insert(s.to_string());
                    }
                }
            }
        }
        if let Some(arr) = p["samples"].as_array() {
            for s in arr {
                samples.push(s.clone());
            }
        }
        if let Some(arr) = p["violations"].as_array() {
            for v in arr {
                violations.push(Violation {
                    phase: v["phase"].as_str().unwrap_or("").to_string(),
                    case: v["case"].as_u64().unwrap_or(0),
                    signature: v["signature"].clone(),
                    detail: v["detail"].clone(),
                });
            }
        }
        violation_count += p["violation_count"].as_u64().unwrap_or(0);
        if let Some(arr) = p["inconclusive"].as_array() {
            for s in arr {
                inconclusive.push(s.as_str().unwrap_or("").to_string());
            }
        }
        if p["budget_stopped"].as_bool().unwrap_or(false) {
            budget_stopped += 1;
        }
    }
    let _ = std::fs::remove_dir_all(&tmp);

    // keep samples small: at most 2 per phase
    let mut per_phase: BTreeMap<String, usize> = BTreeMap::new();
    samples.retain(|s| {
        let n = per_phase.entry(s["phase"].as_str().unwrap_or("").to_string()).or_insert(0);
        *n += 1;
        *n <= 2
    });

    let known = match load_findings(&a.findings, spec.id) {
        Ok(k) => k,
        Err(e) => {
            inconclusive.push(e);
            vec![]
        }
    };
    let mut seen: HashSet<String> = HashSet::new();
    let mut known_seen: BTreeMap<String, u64> = BTreeMap::new();
    let mut new_violations = 0u64;
    let mut replay_paths: Vec<String> = vec![];
    let _ = std::fs::create_dir_all(&a.replay_dir);
    for v in &violations {
        let key = v.signature.to_string();
        if let Some(k) = known.iter().find(|k| k.signature == v.signature) {
            *known_seen.entry(k.what.clone()).or_insert(0) += 1;
            continue;
        }
        if !seen.insert(key.clone()) {
            continue;
        }
        new_violations += 1;
        let name = format!("{}-{:016x}.json", spec.id, hash_str(&key) ^ a.seed);
        let path = a.replay_dir.join(name);
        let abs = std::fs::canonicalize(&a.replay_dir).map(|d| d.join(path.file_name().unwrap())).unwrap_or(path.clone());
        let body = json!({
            "property": spec.id, "tier": tier_s, "seed": a.seed, "phase": v.phase, "case": v.case,
            "signature": v.signature, "detail": v.detail, "build": a.build,
            "how_to_replay": format!("./check {} --replay {}", spec.id, abs.display()),
        });
        let _ = std::fs::write(&abs, serde_json::to_string_pretty(&body).unwrap_or_default());
        println!("VIOLATION property={} replay={}", spec.id, abs.display());
        println!("  signature: {}", v.signature);
        let d = v.detail.to_string();
        println!("  detail: {}", if d.len() > 1500 { format!("{}…", &d.chars().take(1500).collect::<String>()) } else { d });
        replay_paths.push(abs.display().to_string());
    }
    for (what, n) in &known_seen {
        println!("KNOWN-FINDING: property={} {} [observed with {} distinct witnesses-signatures this run]", spec.id, what, n);
    }
    for m in &inconclusive {
        println!("INCONCLUSIVE: {}", m);
    }

    let distinct_n = distinct.len() as u64;
    let wall = t0.elapsed().as_secs_f64();
    if evaluations == 0 {
        evaluations = cases;
    }
    let mut coverage = Map::new();
    coverage.insert("evaluations".into(), json!(evaluations));
    coverage.insert("distinct_nontrivial".into(), json!(distinct_n));
    coverage.insert("rule".into(), json!(spec.rule));
    coverage.insert("samples".into(), Value::from(samples));
    coverage.insert("exhaustive".into(), json!(spec.exhaustive && budget_stopped == 0 && inconclusive.is_empty()));
    coverage.insert("cases".into(), json!(cases));
    coverage.insert("shards".into(), json!(nshards));
    coverage.insert("shards_that_hit_the_workload_cap".into(), json!(budget_stopped));
    coverage.insert("build".into(), json!(a.build));
    coverage.insert("observed".into(), json!(counters));
    coverage.insert("observed_max".into(), json!(maxima));
    coverage.insert("observed_sets".into(), json!(sets.iter().map(|(k, v)| (k.clone(), v.iter().cloned().collect::<Vec<_>>())).collect::<BTreeMap<_, _>>()));
    coverage.insert("known_findings_observed".into(), json!(known_seen));
    coverage.insert("inconclusive".into(), json!(inconclusive));
    coverage.insert("replay_files".into(), json!(replay_paths));
    if let Some(p) = &a.also {
        if let Some(o) = std::fs::read_to_string(p).ok().and_then(|t| serde_json::from_str::<Value>(&t).ok()) {
            coverage.insert("as_shipped_build_run".into(), json!({
                "evaluations": o["coverage"]["evaluations"], "distinct_nontrivial": o["coverage"]["distinct_nontrivial"],
                "verdict": o["coverage"]["verdict"], "violations": o["violations"], "wall_s": o["wall_s"],
                "note": "same monitor on the optimised build without overflow checks / debug assertions",
            }));
        }
    }
    let verdict = if new_violations > 0 {
        "violated"
    } else if !inconclusive.is_empty() || distinct_n < 2 {
        "inconclusive"
    } else {
        "held_on_observed"
    };
    coverage.insert("verdict".into(), json!(verdict));
    let ev = json!({
        "property_id": spec.id,
        "tier": tier_s,
        "seed": a.seed as i64,
        "level": spec.level,
        "coverage": Value::Object(coverage),
        "assumptions": spec.assumptions,
        "wall_s": wall,
        "violations": new_violations,
        "violating_observations_total": violation_count,
    });
    if let Some(p) = &a.evidence {
        if let Some(d) = p.parent() {
            let _ = std::fs::create_dir_all(d);
        }
        let mut fh = std::fs::File::create(p).expect("evidence file");
        let _ = fh.write_all(serde_json::to_string_pretty(&ev).unwrap_or_default().as_bytes());
        let _ = fh.write_all(b"\n");
    }
    println!(
        "{} {} seed={} build={}: verdict={} cases={} evaluations={} distinct_nontrivial={} new_violations={} known_findings={} wall={:.1}s",
        spec.id, tier_s, a.seed as i64, a.build, verdict, cases, evaluations, distinct_n, new_violations, known_seen.len(), wall
    );
    std::process::exit(match verdict {
        "violated" => 1,
        "inconclusive" => 2,
        _ => 0,
    });
}
